"""Storage wrapper that numbers every storage-operation boundary of a whoosh FileStorage.

A Clock is shared by a FaultStorage, the temp storages it hands out, the files they create and the locks they
hand out.  ``tick(kind, name)`` is called immediately BEFORE the operation is performed, so "crash at k" means
"operations 0..k-1 happened, operation k did not".

Uses: C02 (die at boundary k in a forked child), C03/C04 (run a callback / hand the baton over at a boundary).
No whoosh code is modified: the wrapper is an ordinary Storage subclass.
"""
import os
import json

from whoosh.filedb.filestore import FileStorage, RamStorage
from whoosh.filedb.structfile import StructFile
from whoosh.util.filelock import FileLock

STATE_CHANGING = ("create", "write", "flush", "close", "rename", "delete", "lock_acquire", "lock_release",
                  "mkdir", "rmdir", "truncate")


class Clock(object):
    def __init__(self, crash_at=None, crash_mode="asis", on_tick=None, record=False, log_path=None,
                 count_reads=False):
        self.n = 0
        self.crash_at = crash_at
        self.crash_mode = crash_mode
        self.on_tick = on_tick
        self.record = record
        self.events = []
        self.lock_results = []
        self.on_lock = None     # callable(clock, name, acquired) right after an acquire attempt
        self.on_unlock = None   # callable(clock, name) right before a release
        self.log_path = log_path
        self.count_reads = count_reads
        self.open_files = {}   # id(CountingFile) -> CountingFile
        self.in_callback = False

    def tick(self, kind, name):
        if self.in_callback:
            # operations performed by a scheduled callback (e.g. a reader action) are not boundaries of the
            # writer under test
            return
        idx = self.n
        self.n += 1
        if self.record:
            self.events.append((kind, name))
        if self.crash_at is not None and idx == self.crash_at:
            self.crash(kind, name)
        if self.on_tick is not None:
            self.in_callback = True
            try:
                self.on_tick(idx, kind, name)
            finally:
                self.in_callback = False

    def crash(self, kind, name):
        """Process death: nothing is unwound.  The open files are first put into the requested on-disk prefix."""
        info = {"at": self.crash_at, "before": [kind, name], "open": []}
        for cf in list(self.open_files.values()):
            info["open"].append([cf.path, cf.logical])
            try:
                if self.crash_mode == "flush_all":
                    cf.real.flush()
                elif self.crash_mode == "trunc0":
                    os.truncate(cf.path, 0)
                elif self.crash_mode == "half":
                    cf.real.flush()
                    os.truncate(cf.path, cf.logical // 2)
            except (OSError, ValueError):
                pass
        if self.log_path:
            fd = os.open(self.log_path, os.O_CREAT | os.O_WRONLY | os.O_TRUNC)
            os.write(fd, json.dumps(info).encode("utf8"))
            os.close(fd)
        os._exit(137)


class CountingFile(object):
    """Stands in for the real file object inside a StructFile."""

    def __init__(self, real, clock, name, path):
        self.real = real
        self.clock = clock
        self.name = name
        self.path = path
        self.logical = 0
        self.shadow = bytearray()  # everything the writer has handed to this file object so far
        clock.open_files[id(self)] = self

    def fileno(self):
        return self.real.fileno()

    def write(self, data):
        self.clock.tick("write", self.name)
        pos = self.real.tell()
        n = self.real.write(data)
        b = bytes(data)
        if pos > len(self.shadow):
            self.shadow.extend(b"\0" * (pos - len(self.shadow)))
        self.shadow[pos:pos + len(b)] = b
        self.logical = len(self.shadow)
        return n

    def flush(self):
        self.clock.tick("flush", self.name)
        return self.real.flush()

    def truncate(self, *a):
        self.clock.tick("truncate", self.name)
        r = self.real.truncate(*a)
        del self.shadow[(a[0] if a and a[0] is not None else self.real.tell()):]
        return r

    def close(self):
        self.clock.tick("close", self.name)
        self.clock.open_files.pop(id(self), None)
        return self.real.close()

    def __enter__(self):
        return self

    def __exit__(self, *a):
        self.close()

    def __iter__(self):
        return iter(self.real)

    def __getattr__(self, attr):
        return getattr(self.real, attr)


class CountingLock(object):
    def __init__(self, real, clock, name):
        self.real, self.clock, self.name = real, clock, name

    def acquire(self, blocking=False):
        self.clock.tick("lock_acquire", self.name)
        ok = self.real.acquire(blocking)
        if self.clock.record:
            self.clock.lock_results.append((self.clock.n - 1, bool(ok)))
        if self.clock.on_lock is not None:
            self.clock.on_lock(self.clock, self.name, bool(ok))
        return ok

    def release(self):
        self.clock.tick("lock_release", self.name)
        # (the monitor hears about it first: once the real lock is free another thread may be granted it at once)
        if self.clock.on_unlock is not None:
            self.clock.on_unlock(self.clock, self.name)
        return self.real.release()


class _OsProxy(object):
    """Stands in for the `os` module inside whoosh.filedb.filestore while one storage method runs, so that the system
    calls a method is made of (a placeholder created, then replaced; a remove retried) are boundaries of their own"""
    TICKED = ("rename", "replace", "remove", "unlink", "open", "link", "truncate")

    def __init__(self, real, clock):
        self._real = real
        self._clock = clock

    def __getattr__(self, name):
        v = getattr(self._real, name)
        if name in self.TICKED:
            clock = self._clock

            def wrapped(*a, **kw):
                clock.tick("os." + name, repr(a[:2])[-120:])
                return v(*a, **kw)
            return wrapped
        return v


class _os_calls_tick(object):
    def __init__(self, clock):
        self.clock = clock

    def __enter__(self):
        from whoosh.filedb import filestore
        self.saved = filestore.os
        if not getattr(self.clock, "os_level", False):
            # only the crash check asks for this granularity (C03 / C04 place their actions relative to the
            # storage-level rename and lock operations)
            return
        real = self.saved._real if isinstance(self.saved, _OsProxy) else self.saved
        filestore.os = _OsProxy(real, self.clock)

    def __exit__(self, *a):
        from whoosh.filedb import filestore
        filestore.os = self.saved


class FaultStorage(FileStorage):
    def __init__(self, path, clock, supports_mmap=True):
        FileStorage.__init__(self, path, supports_mmap=supports_mmap)
        self.clock = clock

    def create(self):
        self.clock.tick("mkdir", os.path.basename(self.folder))
        return FileStorage.create(self)

    def destroy(self):
        self.clean()
        self.clock.tick("rmdir", os.path.basename(self.folder))
        try:
            os.rmdir(self.folder)
        except OSError:
            pass

    def clean(self, ignore=False):
        for fname in self.list():
            self.clock.tick("delete", fname)
            try:
                os.remove(os.path.join(self.folder, fname))
            except OSError:
                if not ignore:
                    raise

    def create_file(self, name, excl=False, mode="wb", **kwargs):
        self.clock.tick("create", name)
        path = self._fpath(name)
        if excl:
            flags = os.O_CREAT | os.O_EXCL | os.O_RDWR
            fd = os.open(path, flags)
            fileobj = os.fdopen(fd, mode)
        else:
            fileobj = open(path, mode)
        return StructFile(CountingFile(fileobj, self.clock, name, path), name=name, **kwargs)

    def open_file(self, name, **kwargs):
        if self.clock.count_reads:
            self.clock.tick("open", name)
        return FileStorage.open_file(self, name, **kwargs)

    def delete_file(self, name):
        self.clock.tick("delete", name)
        with _os_calls_tick(self.clock):
            return FileStorage.delete_file(self, name)

    def rename_file(self, oldname, newname, safe=False):
        self.clock.tick("rename", "%s -> %s" % (oldname, newname))
        with _os_calls_tick(self.clock):
            return FileStorage.rename_file(self, oldname, newname, safe=safe)

    def lock(self, name):
        return CountingLock(FileLock(self._fpath(name)), self.clock, name)

    def temp_storage(self, name=None):
        from whoosh.util import random_name
        name = name or "%s.tmp" % random_name()
        path = os.path.join(self.folder, name)
        return FaultStorage(path, self.clock, supports_mmap=self.supports_mmap).create()


class FaultRamStorage(RamStorage):
    """RamStorage whose state-changing operations are numbered by a Clock (a file becomes visible when it is
    closed, so creation is ticked at create and at close)."""

    def __init__(self, clock):
        RamStorage.__init__(self)
        self.clock = clock

    def create_file(self, name, **kwargs):
        self.clock.tick("create", name)
        f = RamStorage.create_file(self, name, **kwargs)
        inner = f.onclose

        def onclose(sfile):
            self.clock.tick("close", name)
            inner(sfile)
        f.onclose = onclose
        return f

    def delete_file(self, name):
        self.clock.tick("delete", name)
        return RamStorage.delete_file(self, name)

    def rename_file(self, name, newname, safe=False):
        self.clock.tick("rename", "%s -> %s" % (name, newname))
        return RamStorage.rename_file(self, name, newname, safe=safe)

    def lock(self, name):
        return CountingLock(RamStorage.lock(self, name), self.clock, name)
