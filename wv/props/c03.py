"""C03 - readers are snapshots; new readers and refresh() see exactly the last commit."""
import os
import traceback

from hypothesis import strategies as st

from whoosh import sorting
from whoosh import query as wq
from whoosh.filedb.filestore import FileStorage
from whoosh.index import FileIndex

from wv.runner import Sub, HarnessError
from wv.util import tempdir
from wv import corpus, gen
from wv.dump import dump, diff
from wv.faultfs import Clock, FaultStorage, FaultRamStorage
from wv.refquery import to_whoosh
from wv.props import c06

PROP = "C03"
LEVEL = "exploration"
RULE = ("Each case = a generated history of 2-5 writer transactions (adds, updates, deletes, merge=False / default / "
        "optimize, cancel) on a directory index (mmap on/off) or a RAM index, compound or loose segment files, and a "
        "generated schedule of reader actions placed at storage-operation boundaries of those transactions (the storage "
        "wrapper calls back into the harness before every create / write / close / rename / delete / lock operation of the "
        "writer, so the interleaving is owned by the harness at I/O granularity and is a pure function of the case): "
        "open a searcher, probe held searcher i, refresh i, up_to_date i, close i, split-open (read the TOC at one "
        "boundary, build the reader at a later one through whoosh's own retry path). The probe reads everything a reader "
        "can lazily open: stored fields, lexicon, postings with weights/positions, field lengths, vectors, column "
        "values, scored searches, a search sorted on a column field and one sorted on a field without column. Oracle: a "
        "held searcher's probe always equals the probe of a fresh reader taken at the boundary where it was opened; a "
        "searcher opened or refreshed at boundary j equals the reference state of the last transaction whose TOC rename "
        "precedes j (reference = un-instrumented run of the same history, cross-checked against the document model); "
        "up_to_date() is true exactly when the searcher's generation is the latest. Non-trivial = a searcher held "
        "across >=1 merging/optimizing commit and probed afterwards, or a refresh after a merge; distinct by SHA-1 of case.")
ASSUMPTIONS = [
    "reader steps are atomic between two writer storage operations (readers and writers share nothing but the "
    "storage, so I/O granularity is where the property can break); split-open covers the one reader operation that "
    "is not atomic in this sense (TOC read, then segment opens)",
    "recorded finding: with loose segment files (compound=False) on disk or in RAM the per-document files are opened "
    "anew on every access, so a searcher held across the clean-up of its segments fails or silently loses column "
    "values / vectors / lengths; in those two configurations a held searcher is therefore only judged until the first "
    "file deletion after a newer commit (everything else - fresh, refreshed, split-opened searchers, up_to_date - is "
    "judged there as everywhere)",
]

PROBE_QUERIES = c06.PROBES


class StaleListStorage(FileStorage):
    """FileStorage whose next directory listing is one taken earlier: the process that opens the index was
    descheduled between listing the directory (to find the newest TOC) and opening that TOC."""
    _stale = None

    def list(self):
        if self._stale is not None:
            names, self._stale = self._stale, None
            return names
        return FileStorage.list(self)

    def __iter__(self):
        return iter(self.list())


class StaleFirstIndex(FileIndex):
    """FileIndex whose next TOC read is answered with a TOC that was read earlier: the reader was descheduled
    between reading the TOC and opening the segments."""
    _stale = None

    def _read_toc(self):
        if self._stale is not None:
            info, self._stale = self._stale, None
            return info
        return FileIndex._read_toc(self)


def probe(s):
    """Everything observable through a searcher, keyed by document key."""
    r = s.reader()
    d = dump(r)
    res = []
    for qj in PROBE_QUERIES:
        res.append(sorted((h["k"], round(h.score, 6)) for h in s.search(to_whoosh(qj), limit=None)))
    # sorted on a column field (if n is sortable) and on one without a column
    res.append([h["k"] for h in s.search(wq.Every(), limit=None, sortedby=[sorting.FieldFacet("n"), sorting.FieldFacet("k")])])
    res.append([h["k"] for h in s.search(wq.Every(), limit=None, sortedby=[sorting.FieldFacet("g"), sorting.FieldFacet("k")])])
    d["_searches"] = res
    d.pop("doc_count_all", None)
    d.pop("has_deletions", None)
    return d


@st.composite
def case_s(draw):
    hist = draw(gen.history_s(max_txs=5, min_txs=2, max_docs=5, allow_cancel=True, blocklimits=(1, 128),
                              merges=(False, True, "opt", "opt"),
                              schema_s=st.fixed_dictionaries({"t_vector": st.booleans(), "g_sortable": st.just(False),
                                                              "n_sortable": st.booleans()})))
    ntx = len(hist["txs"])
    # positions inside a transaction: a fraction of its boundaries, or (negative numbers) a distance from the TOC
    # rename: -1 = the boundary of the rename itself (old TOC still current), -2.. = 1.. operations after it (both TOC
    # files and all old segment files still present, then disappearing one by one)
    fracs = (st.sampled_from([0.0, 0.5, 0.9, 0.97, 0.99, 1.0, -1, -2, -3, -4, -6, -9]) | st.floats(0, 1, allow_nan=False)
             | st.integers(-14, -1))
    actions = []
    # a few searchers, each opened somewhere and then followed through later transactions
    for _ in range(draw(st.integers(1, 3))):
        t0 = draw(st.integers(0, ntx - 1))
        actions.append({"tx": t0, "frac": draw(fracs), "kind": draw(st.sampled_from(["open", "open", "open", "split_open", "stale_list_open"])),
                        "who": 0, "lag": draw(st.integers(1, 40))})
        for _ in range(draw(st.integers(1, 4))):
            actions.append({"tx": draw(st.integers(t0, ntx - 1)), "frac": draw(fracs),
                            "kind": draw(st.sampled_from(["probe", "probe", "refresh", "up_to_date", "probe", "close"])),
                            "who": draw(st.integers(0, 5)), "lag": 1})
    if draw(st.booleans()):
        # tail: a searcher opened now lives through two delete-only, non-merging commits that hit the same old segment
        # and is refreshed after each of them
        first_adds = [op[1]["k"] for op in hist["txs"][0]["ops"] if op[0] == "add"] if hist["txs"][0].get("end") == "commit" else []
        if len(first_adds) >= 2:
            n0 = len(hist["txs"])
            for key in first_adds[:2]:
                hist["txs"].append({"ops": [["delk", key]], "end": "commit", "merge": False, "optimize": False, "blocklimit": 128})
            # ... and through a commit that changes nothing (an idle flush)
            hist["txs"].append({"ops": [], "end": "commit", "merge": False, "optimize": False, "blocklimit": 128})
            actions.append({"tx": n0 - 1, "frac": 1.0, "kind": "open", "who": 0, "lag": 1})
            for t in (n0, n0 + 1, n0 + 2):
                for who in (0, 1, 2, 3):
                    actions.append({"tx": t, "frac": 1.0, "kind": "refresh", "who": who, "lag": 1})
    return {"hist": hist, "actions": actions,
            "store": draw(st.sampled_from(["file", "file_nommap", "ram"])),
            "compound": draw(st.booleans()),
            # single-document commits before the history, so that generation numbers gain a digit inside it
            "pad": draw(st.sampled_from([0, 0, 0, 3, 6, 7, 8, 9, 10]))}


def strategy(tier):
    return case_s()


def _writer_kwargs(case, tx):
    kw = corpus.writer_kwargs(tx)
    if not case["compound"]:
        kw["compound"] = False
    return kw


def run(case, out):
    hist = case["hist"]
    txs = hist["txs"]
    schema = corpus.build_schema(hist.get("schema"))
    with tempdir() as d:
        # reference run: states after each transaction, boundary counts per transaction
        refdir = os.path.join(d, "ref")
        os.makedirs(refdir)
        cclock = Clock(record=True)
        if case["store"] == "ram":
            rst = FaultRamStorage(cclock)
        else:
            rst = FaultStorage(refdir, cclock, supports_mmap=(case["store"] != "file_nommap"))
        rix = rst.create_index(schema)
        model = corpus.Model()
        states = []
        gens = [0]
        s0 = rix.searcher()
        states.append(probe(s0))
        s0.close()
        pads = [{"ops": [["add", {"k": "p%d" % i, "t": ["a", "c"] if i % 2 else ["b"], "w": [], "n": i, "d": None, "g": None}]],
                 "end": "commit", "merge": False, "optimize": False, "blocklimit": 128} for i in range(case.get("pad", 0))]
        for tx in pads:
            corpus.apply_tx(rix, model, tx, writer=rix.writer(**_writer_kwargs(case, tx)))
        s0 = rix.searcher()
        states[0] = probe(s0)
        s0.close()
        gens[0] = len(pads)
        nbounds = []
        merging = []
        renames = []
        for tx in txs:
            before = cclock.n
            nseg_before = len(rix._segments())
            committed = corpus.apply_tx(rix, model, tx, writer=rix.writer(**_writer_kwargs(case, tx)))
            nbounds.append(cclock.n - before)
            rn = [i for i in range(before, cclock.n) if cclock.events[i][0] == "rename" and cclock.events[i][1].endswith(".toc")]
            renames.append(rn[0] - before if rn else None)
            s0 = rix.searcher()
            p = probe(s0)
            s0.close()
            if sorted(p["stored"]) != sorted(model.keys()):
                # a searcher opened right after the commit does not show the committed documents
                out.fail("c03.fresh_searcher_differs_from_model", {"tx": len(states) - 1, "got": sorted(p["stored"])[:12],
                                                                   "expected": sorted(model.keys())[:12]})
                rix.close()
                return
            states.append(p)
            gens.append(gens[-1] + (1 if committed else 0))
            merging.append(bool(committed) and nseg_before >= 1 and len(rix._segments()) <= nseg_before
                           and bool(tx.get("merge")))
        rix.close()

        # instrumented run with the reader schedule
        workdir = os.path.join(d, "work")
        os.makedirs(workdir)
        plan = {}
        for ai, a in enumerate(case["actions"]):
            t = a["tx"] % len(txs)
            if a["frac"] < 0:
                at = nbounds[t] if renames[t] is None else min(renames[t] + int(-a["frac"]) - 1, nbounds[t])
            else:
                at = min(int(a["frac"] * nbounds[t]), nbounds[t])
            plan.setdefault((t, at), []).append(a)
        held = {}      # slot -> dict(searcher, expected, opened_state, crossed_merge)
        pending = []   # split-opens waiting for their second half: (tx, at, toc info, state index)
        st_ = {"tx": 0, "base": 0, "renamed": False, "cur": 0, "gen": 0}
        errors = []
        flags = {"held_across_merge_probed": False, "refresh_after_merge": False}

        def reader_index(cls=FileIndex):
            if case["store"] == "ram":
                return cls(wst, schema=None, indexname="MAIN")
            return cls(FileStorage(workdir, supports_mmap=(case["store"] != "file_nommap")), schema=None, indexname="MAIN")

        def fail(sig, detail):
            detail = dict(detail)
            detail["config"] = [case["store"], "compound" if case["compound"] else "loose"]
            out.fail(sig, detail)

        lazy_cfg = (case["store"] == "ram" or not case["compound"])

        def do_probe(slot, where):
            h = held[slot]
            try:
                got = probe(h["searcher"])
            except Exception as e:
                sig = "c03.held_searcher_raises"
                if lazy_cfg and h["crossed_cleanup"]:
                    sig = "c03.lazily_opened_files_vanish_under_held_reader"
                if not sig.startswith("c03.lazily"):
                    sig += ":" + type(e).__name__
                fail(sig, {"where": where, "error": "".join(traceback.format_exception_only(type(e), e))[-300:],
                           "opened_in_state": h["state"], "now_state": st_["cur"]})
                close_slot(slot)
                return
            if got != h["expected"]:
                sig = "c03.held_searcher_changed"
                if lazy_cfg and h["crossed_cleanup"]:
                    sig = "c03.lazily_opened_files_vanish_under_held_reader"
                fail(sig, {"where": where, "diff": diff(h["expected"], got)[:6], "opened_in_state": h["state"],
                           "now_state": st_["cur"]})
                close_slot(slot)
                return
            if h["crossed_merge"]:
                flags["held_across_merge_probed"] = True

        def close_slot(slot):
            h = held.pop(slot, None)
            if h:
                try:
                    h["searcher"].close()
                except Exception:
                    pass

        def expect_current(s, what, where):
            """a searcher just opened / refreshed must show exactly the latest committed state"""
            try:
                got = probe(s)
            except Exception as e:
                fail("c03.%s_raises:%s" % (what, type(e).__name__),
                     {"where": where, "error": "".join(traceback.format_exception(type(e), e, e.__traceback__))[-600:]})
                return False
            if got != states[st_["cur"]]:
                fail("c03.%s_not_latest_commit" % what, {"where": where, "state": st_["cur"],
                                                         "diff": diff(states[st_["cur"]], got)[:6]})
                return False
            return True

        def act(a, where):
            kind = a["kind"]
            slots = sorted(held)
            if kind == "open":
                ix = reader_index()
                s = ix.searcher()
                # what it must keep showing: the probe of an independent reader opened at the same boundary
                fresh = reader_index().searcher()
                ok = expect_current(fresh, "fresh_searcher", where)
                fresh.close()
                if not ok:
                    s.close()
                    return
                slot = max(slots + [-1]) + 1
                held[slot] = {"searcher": s, "expected": states[st_["cur"]], "state": st_["cur"],
                              "crossed_merge": False, "crossed_cleanup": False}
                return
            if kind == "stale_list_open":
                if case["store"] == "ram":
                    return
                pending.append({"listing": sorted(os.listdir(workdir)), "state": st_["cur"], "due": a["lag"], "stale_list": True})
                return
            if kind == "split_open":
                ix = reader_index(StaleFirstIndex)
                try:
                    info = ix._read_toc()
                except Exception as e:
                    fail("c03.read_toc_raises:%s" % type(e).__name__, {"where": where})
                    return
                pending.append({"ix": ix, "info": info, "state": st_["cur"], "due": a["lag"]})
                return
            if not slots:
                return
            slot = slots[a["who"] % len(slots)]
            h = held[slot]
            if kind == "probe":
                do_probe(slot, where)
            elif kind == "close":
                close_slot(slot)
            elif kind == "up_to_date":
                try:
                    got = h["searcher"].up_to_date()
                except Exception as e:
                    fail("c03.up_to_date_raises:%s" % type(e).__name__, {"where": where})
                    return
                exp = (gens_at(h["state"]) == st_["gen"])
                if got != exp:
                    fail("c03.up_to_date_wrong", {"where": where, "got": got, "searcher_generation": gens_at(h["state"]),
                                                  "latest": st_["gen"]})
            elif kind == "refresh":
                try:
                    s2 = h["searcher"].refresh()
                except Exception as e:
                    fail("c03.refresh_raises:%s" % type(e).__name__,
                         {"where": where, "error": "".join(traceback.format_exception_only(type(e), e))[-300:]})
                    close_slot(slot)
                    return
                if expect_current(s2, "refreshed_searcher", where):
                    try:
                        utd = s2.up_to_date()
                    except Exception as e:
                        utd = repr(e)
                    if utd is not True:
                        fail("c03.refreshed_searcher_not_up_to_date", {"where": where, "up_to_date": utd,
                                                                       "reader_generation": s2.reader().generation(),
                                                                       "latest": st_["gen"]})
                    if h["crossed_merge"]:
                        flags["refresh_after_merge"] = True
                    held[slot] = {"searcher": s2, "expected": states[st_["cur"]], "state": st_["cur"],
                                  "crossed_merge": False, "crossed_cleanup": False}
                else:
                    held.pop(slot, None)
                    try:
                        s2.close()
                    except Exception:
                        pass

        def safe_act(a, where):
            from wv.runner import _is_whoosh_frame
            try:
                act(a, where)
            except HarnessError:
                raise
            except Exception as e:
                tb = traceback.extract_tb(e.__traceback__)
                if not any(_is_whoosh_frame(f) for f in tb):
                    raise
                fail("c03.reader_action_raises:%s:%s" % (a["kind"], type(e).__name__),
                     {"where": where, "error": "".join(traceback.format_exception(type(e), e, e.__traceback__))[-700:]})

        def gens_at(state_index):
            return gens[state_index]

        def finish_stale_list(p, where):
            # open_dir() whose directory listing is older than its TOC read
            stg = StaleListStorage(workdir, supports_mmap=(case["store"] != "file_nommap"))
            stg._stale = list(p["listing"])
            try:
                ix = FileIndex(stg, schema=None, indexname="MAIN")
                s = ix.searcher()
            except Exception as e:
                fail("c03.open_with_stale_listing_raises:" + type(e).__name__,
                     {"where": where, "error": "".join(traceback.format_exception_only(type(e), e))[-300:],
                      "listed_in_state": p["state"], "now_state": st_["cur"]})
                return
            try:
                exp = states[p["state"]] if s.reader().generation() == gens[p["state"]] else states[st_["cur"]]
                out.label("stale_listing_old_toc" if exp is states[p["state"]] and p["state"] != st_["cur"] else "stale_listing_current")
                try:
                    got = probe(s)
                except Exception as e:
                    if lazy_cfg and s.reader().generation() != st_["gen"]:
                        fail("c03.lazily_opened_files_vanish_under_held_reader", {"where": where})
                    else:
                        fail("c03.stale_listing_searcher_raises:" + type(e).__name__, {"where": where})
                    return
                if got != exp:
                    sig = "c03.stale_listing_searcher_mixed_state"
                    if lazy_cfg and s.reader().generation() != st_["gen"]:
                        sig = "c03.lazily_opened_files_vanish_under_held_reader"
                    fail(sig, {"where": where, "diff": diff(exp, got)[:6]})
            finally:
                s.close()

        def finish_split(p, where):
            if p.get("stale_list"):
                return finish_stale_list(p, where)
            # whoosh's own FileIndex.reader() loop, with its first TOC read answered by the TOC read earlier
            ix, info = p["ix"], p["info"]
            ix._stale = info
            try:
                r = ix.reader()
            except Exception as e:
                fail("c03.split_open_raises:" + type(e).__name__,
                     {"where": where, "error": "".join(traceback.format_exception_only(type(e), e))[-300:],
                      "toc_read_in_state": p["state"], "now_state": st_["cur"]})
                return
            if r.generation() == gens[p["state"]]:
                exp = states[p["state"]]
                out.label("split_open_on_old_toc" if p["state"] != st_["cur"] else "split_open_same_state")
            else:
                exp = states[st_["cur"]]
                out.label("split_open_retried")
            from whoosh.searching import Searcher
            s = Searcher(r, fromindex=ix)
            try:
                got = probe(s)
            except Exception as e:
                sig = "c03.split_opened_searcher_raises"
                if lazy_cfg and r.generation() != st_["gen"]:
                    sig = "c03.lazily_opened_files_vanish_under_held_reader"
                else:
                    sig += ":" + type(e).__name__
                fail(sig, {"where": where, "error": "".join(traceback.format_exception_only(type(e), e))[-300:]})
                return
            finally:
                pass
            if got != exp:
                sig = "c03.split_opened_searcher_mixed_state"
                if lazy_cfg and r.generation() != st_["gen"]:
                    sig = "c03.lazily_opened_files_vanish_under_held_reader"
                fail(sig, {"where": where, "diff": diff(exp, got)[:6]})
            s.close()

        def on_tick(idx, kind, name):
            try:
                t = st_["tx"]
                k = idx - st_["base"]
                where = {"tx": t, "boundary": k, "of": nbounds[t], "before_op": [kind, name]}
                for p in list(pending):
                    p["due"] -= 1
                    if p["due"] <= 0:
                        pending.remove(p)
                        finish_split(p, where)
                for a in plan.get((t, k), ()):
                    safe_act(a, where)
                if kind == "rename" and name.endswith(".toc") and "-> _MAIN_" in name:
                    st_["renaming"] = True
                elif st_.get("renaming"):
                    pass
            except HarnessError:
                raise
            except BaseException as e:
                errors.append("".join(traceback.format_exception(type(e), e, e.__traceback__)))

        wclock = Clock()
        if case["store"] == "ram":
            wst = FaultRamStorage(wclock)
        else:
            wst = FaultStorage(workdir, wclock, supports_mmap=(case["store"] != "file_nommap"))
        wix = wst.create_index(schema)

        # the state switches from old to new when the TOC rename has happened, i.e. at the first tick after it
        def tick(idx, kind, name):
            if st_.get("renaming"):
                st_["renaming"] = False
                st_["cur"] = st_["tx"] + 1
                st_["gen"] += 1
                for h in held.values():
                    if merging[st_["tx"]]:
                        h["crossed_merge"] = True
            if kind == "delete" and st_["cur"] == st_["tx"] + 1:
                for h in held.values():
                    h["crossed_cleanup"] = True
            on_tick(idx, kind, name)
        wclock.on_tick = tick

        wmodel = corpus.Model()
        wclock.in_callback = True
        for tx in pads:
            corpus.apply_tx(wix, wmodel, tx, writer=wix.writer(**_writer_kwargs(case, tx)))
        wclock.in_callback = False
        st_["gen"] = len(pads)
        for t, tx in enumerate(txs):
            st_["tx"] = t
            st_["base"] = wclock.n
            st_["renaming"] = False
            corpus.apply_tx(wix, wmodel, tx, writer=wix.writer(**_writer_kwargs(case, tx)))
            if st_.get("renaming"):
                st_["renaming"] = False
                st_["cur"] = t + 1
                st_["gen"] += 1
            n_here = wclock.n - st_["base"]
            if n_here != nbounds[t]:
                raise HarnessError("transaction %d not reproducible: %d vs %d boundaries" % (t, n_here, nbounds[t]))
            if gens[t + 1] != gens[t] and st_["cur"] != t + 1:
                raise HarnessError("state tracking lost at tx %d" % t)
            st_["cur"] = t + 1
            # actions scheduled after the last boundary of this transaction
            wclock.in_callback = True
            try:
                where = {"tx": t, "boundary": nbounds[t], "of": nbounds[t], "before_op": ["end", ""]}
                for p in list(pending):
                    pending.remove(p)
                    finish_split(p, where)
                for a in plan.get((t, nbounds[t]), ()):
                    safe_act(a, where)
            finally:
                wclock.in_callback = False
            if errors:
                break
        if errors:
            raise HarnessError("reader action failed in the harness: " + errors[0][-1500:])
        # final probes of everything still held
        for slot in sorted(held):
            do_probe(slot, {"tx": len(txs), "boundary": "final"})
        for slot in sorted(held):
            close_slot(slot)
        wix.close()
    out.nontrivial = flags["held_across_merge_probed"] or flags["refresh_after_merge"]
    out.key = case
    for k, v in flags.items():
        if v:
            out.label(k)
    out.label("store_" + case["store"], "compound" if case["compound"] else "loose")


SUBS = {
    "schedule": Sub(run, strategy, quick=40, thorough=600, quick_shards=8),
}
