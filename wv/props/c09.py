"""C09 - scores are the documented composition of the weighting model's term scores."""
import math

from hypothesis import strategies as st

from whoosh import scoring
from whoosh import query as wq
from whoosh.util.numeric import length_to_byte, byte_to_length

from wv.runner import Sub
from wv import corpus, gen
from wv.dump import f32
from wv.refquery import ref_eval, to_whoosh, shape, walk

PROP = "C09"
LEVEL = "exploration"
RULE = ("scores: each case = a generated index (1-4 commits, merges, document/field boosts; half the cases deletion-free) "
        "x 5 generated query trees x one generated weighting configuration (BM25F with B/K1/per-field B, TF_IDF, "
        "Frequency, PL2, DFree, MultiWeighting, FunctionWeighting, a final() hook). Leaf layer (deletion-free indexes): "
        "Hit.score of every Term(t|w, word) equals a reference scorer that re-derives document frequency, weights "
        "(float32), byte-approximated field lengths and averages from the document model and applies the published "
        "formula. Composition layer (any index): the score of every hit of a tree equals the documented composition "
        "(sum / max / first operand / first+second / constant, times boosts) of the scores its sub-queries give that "
        "document when run alone on the same searcher. Independence: same score under limit=3 and under a filter. "
        "Non-trivial = a composite hit for which at least one child does not match the document, on an index with "
        ">=2 segments; distinct by SHA-1 of (weighting kind, query shape, segment count). unionpaths: one segment "
        "of 2049-5001 documents from a generated periodic recipe, generated queries containing an Or of >=3 clauses "
        "run with every working implementation of Or (automatic choice, binary tree of unions, array-buffered "
        "union): same documents, scores equal within 1e-5 relative (summation order differs); non-trivial = the "
        "matches span more than one 2048-document part.")
ASSUMPTIONS = [
    "the 1-byte field-length approximation (length_to_byte/byte_to_length) is part of the specification "
    "('its (approximated) field length')",
    "tolerance: |a-b| <= 1e-9*max(1,|a|,|b|) for compositions; 2e-6 relative against the reference scorer "
    "(term-info totals are accumulated/stored in float32)",
    "DisjunctionMax is composed with tiebreak=0 only (the tiebreak parameter is documented but unused)",
]

WORDS = ["a", "b", "ab", "abc", "ba", "c"]


def weighting_s():
    bm = st.builds(lambda B, K1, tB: {"kind": "bm25f", "B": B, "K1": K1, "t_B": tB},
                   st.sampled_from([0.75, 0.0, 1.0, 0.3]), st.sampled_from([1.2, 0.5, 2.0]),
                   st.sampled_from([None, 0.0, 0.0, 1.0, 0.5]))
    return st.one_of(
        bm, bm, bm,
        st.just({"kind": "tfidf"}),
        st.just({"kind": "frequency"}),
        st.builds(lambda c: {"kind": "pl2", "c": c}, st.sampled_from([1.0, 0.5, 7.0])),
        st.just({"kind": "dfree"}),
        st.just({"kind": "multi"}),
        st.just({"kind": "function"}),
        st.just({"kind": "final"}),
    )


def strategy(tier):
    return st.one_of(
        st.fixed_dictionaries({
            "hist": gen.history_s(max_txs=4, max_docs=10, boosts=True, updates=False,
                                  schema_s=st.fixed_dictionaries({"t_boost": st.sampled_from([1.0, 2.0, 0.5]),
                                                                  "w_boost": st.sampled_from([1.0, 3.0])})),
            "queries": st.lists(gen.query_s(max_leaves=6, scored_leaves=True), min_size=5, max_size=5),
            "weighting": weighting_s(),
        }),
    )


class FinalBM25(scoring.BM25F):
    use_final = True

    def final(self, searcher, docnum, score):
        n = searcher.stored_fields(docnum).get("n")
        return score * (2.0 if (n is not None and n % 2 == 0) else 1.0) + (docnum % 3) * 0.25


def _fn(searcher, fieldname, text, matcher):
    return matcher.weight() * 1.5 + 0.25


def make_weighting(w):
    k = w["kind"]
    if k == "bm25f":
        kw = {}
        if w.get("t_B") is not None:
            kw["t_B"] = w["t_B"]
        return scoring.BM25F(B=w["B"], K1=w["K1"], **kw)
    if k == "tfidf":
        return scoring.TF_IDF()
    if k == "frequency":
        return scoring.Frequency()
    if k == "pl2":
        return scoring.PL2(c=w["c"])
    if k == "dfree":
        return scoring.DFree()
    if k == "multi":
        return scoring.MultiWeighting(scoring.BM25F(), w=scoring.Frequency(), k=scoring.TF_IDF())
    if k == "function":
        return scoring.FunctionWeighting(_fn)
    if k == "final":
        return FinalBM25()
    if k == "reverse":
        return scoring.ReverseWeighting(scoring.BM25F())
    raise ValueError(k)


def close(a, b, tol=1e-9):
    return abs(a - b) <= tol * max(1.0, abs(a), abs(b))


# ------------------------------------------------------------------ reference scorer (deletion-free corpora)

def ref_term_scores(docs, schema_spec, field, word, w):
    """key -> reference score of Term(field, word) under weighting config w, or None if not modelled"""
    fboost = (schema_spec or {}).get("%s_boost" % field, 1.0)
    N = len(docs)
    tf = {}
    lens = {}
    for d in docs:
        toks = d.get(field) or []
        lens[d["k"]] = len(toks)
        c = toks.count(word)
        if c:
            dboost = d.get("boost") or 1.0
            if field == "t" and d.get("tboost") is not None:
                dboost = d["tboost"]   # _t_boost stands in for the document boost, for this field only
            tf[d["k"]] = f32(c * fboost * dboost)
    if not tf:
        return {}
    n = len(tf)
    idf = math.log(N / (n + 1.0)) + 1.0
    total_len = sum(lens.values())
    avgfl = (float(total_len) / (N or 1)) or 1
    cf = sum(tf.values())
    kind = w["kind"]
    if kind == "multi":
        kind = "frequency" if field == "w" else "bm25f"
        w = {"kind": kind, "B": 0.75, "K1": 1.2}
    out = {}
    for k, wt in tf.items():
        fl = byte_to_length(length_to_byte(lens[k]))
        if kind == "bm25f" or kind == "final":
            B = w.get("B", 0.75)
            if field == "t" and w.get("t_B") is not None:
                B = w["t_B"]
            K1 = w.get("K1", 1.2)
            out[k] = idf * ((wt * (K1 + 1)) / (wt + K1 * ((1 - B) + B * fl / avgfl)))
        elif kind == "tfidf":
            out[k] = wt * idf
        elif kind == "frequency":
            out[k] = wt
        elif kind == "function":
            out[k] = wt * 1.5 + 0.25
        elif kind == "pl2":
            c = w["c"]
            TF = wt * math.log(1.0 + (c * avgfl) / fl)
            norm = 1.0 / (TF + 1.0)
            f = cf / N
            out[k] = norm * 1 * (TF * math.log(1.0 / f) + f * (1.0 / math.log(2)) + 0.5 * math.log(2 * math.pi * TF)
                                 + TF * (math.log(TF) - (1.0 / math.log(2))))
        elif kind == "dfree":
            prior = wt / fl
            post = (wt + 1.0) / (fl + 1.0)
            invpriorcol = float(total_len) / cf
            norm = wt * math.log(post / prior)
            out[k] = 1 * norm * (wt * (math.log(prior * invpriorcol)) + (wt + 1.0) * (math.log(post * invpriorcol))
                                 + 0.5 * math.log(post / prior))
        else:
            return None
    return out


# ------------------------------------------------------------------ composition

LEAF_OPS = ("term", "phrase", "prefix", "wildcard", "regex", "trange", "nrange", "drange", "fuzzy", "every", "not",
            "null")


BOOSTABLE = ("term", "phrase", "prefix", "wildcard", "regex", "trange", "nrange", "drange", "fuzzy", "every", "and",
             "or", "dismax")


def run(case, out):
    hist = case["hist"]
    ix, model = corpus.build(hist, "ram", None, ref_eval, to_whoosh)
    docs = model.live()
    nseg, ndel = corpus.layout_signature(ix)
    wcfg = case["weighting"]
    is_final = wcfg["kind"] == "final"
    out.label("w_" + wcfg["kind"], "segments_%s" % (nseg if nseg < 3 else "3+"), "deletion_free" if ndel == 0 and
              model.ndeleted_total == 0 else "has_deletions")
    s = ix.searcher(weighting=make_weighting(wcfg))
    raw = ix.searcher(weighting=scoring.BM25F()) if is_final else s
    nt = []
    try:
        def run_alone(searcher, q):
            r = searcher.search(q, limit=None)
            return dict((h["k"], h.score) for h in r), dict((h["k"], h.docnum) for h in r)

        # ---- leaf layer
        if ndel == 0 and model.ndeleted_total == 0 and not is_final:
            for field, words in (("t", WORDS), ("w", ["x", "y", "xy", "a", "ab"]), ("t", ["a", "ab"])):
                for word in words:
                    exp = ref_term_scores(docs, hist.get("schema"), field, word, wcfg)
                    if exp is None:
                        continue
                    try:
                        got, _ = run_alone(s, wq.Term(field, word))
                    except (ValueError, ZeroDivisionError, OverflowError) as e:
                        if wcfg["kind"] in ("pl2", "dfree"):
                            # log/division domain errors of the published formula itself on degenerate statistics
                            out.exclude("formula_domain_error")
                            continue
                        raise
                    out.units += 1
                    if set(got) != set(exp):
                        out.fail("c09.leaf_docs_differ", [field, word, sorted(got), sorted(exp)])
                        continue
                    for k in exp:
                        if not close(got[k], exp[k], 2e-6):
                            out.fail("c09.leaf_score:%s" % wcfg["kind"],
                                     {"field": field, "word": word, "doc": k, "got": got[k], "expected": exp[k],
                                      "weighting": wcfg})
                            break

        # ---- composition layer
        memo = {}

        def comp(q):
            """key -> raw score"""
            op = q["op"]
            b = q.get("boost", 1.0)
            if op in LEAF_OPS:
                key = repr(sorted(q.items(), key=repr))
                if key not in memo:
                    memo[key] = run_alone(raw, to_whoosh(q))[0]
                return memo[key]
            if op == "and":
                subs = [comp(x) for x in q["qs"]]
                keys = set(subs[0])
                for d in subs[1:]:
                    keys &= set(d)
                return dict((k, sum(d[k] for d in subs) * b) for k in keys)
            if op == "or":
                subs = [comp(x) for x in q["qs"]]
                keys = set().union(*[set(d) for d in subs])
                return dict((k, sum(d[k] for d in subs if k in d) * b) for k in keys)
            if op == "dismax":
                subs = [comp(x) for x in q["qs"]]
                keys = set().union(*[set(d) for d in subs])
                return dict((k, max(d[k] for d in subs if k in d) * b) for k in keys)
            if op == "andnot":
                a, bb = comp(q["a"]), comp(q["b"])
                return dict((k, v) for k, v in a.items() if k not in bb)
            if op == "andmaybe":
                a, bb = comp(q["a"]), comp(q["b"])
                return dict((k, v + bb.get(k, 0)) for k, v in a.items())
            if op == "require":
                a, bb = comp(q["a"]), comp(q["b"])
                return dict((k, v) for k, v in a.items() if k in bb)
            if op == "const":
                a = comp(q["q"])
                return dict((k, q.get("score", 1.0)) for k in a)
            raise ValueError(op)

        for qj in case["queries"]:
            if qj["op"] in LEAF_OPS:
                continue
            if any(x["op"] == "dismax" and x.get("tiebreak") for x in walk(qj)):
                out.exclude("dismax_tiebreak_nonzero")
                continue
            q = to_whoosh(qj)
            try:
                exp = comp(qj)
                got, docnums = run_alone(s, q)
            except (ValueError, ZeroDivisionError, OverflowError):
                if wcfg["kind"] in ("pl2", "dfree"):
                    out.exclude("formula_domain_error")
                    continue
                raise
            out.units += 1
            if set(got) != set(exp):
                out.fail("c09.composite_docs_differ", {"q": qj, "got": sorted(got), "expected": sorted(exp)})
                continue
            if is_final:
                w = make_weighting(wcfg)
                exp = dict((k, w.final(s, docnums[k], v)) for k, v in exp.items())
            for k in sorted(exp):
                if not close(got[k], exp[k]):
                    out.fail("c09.composition:%s" % qj["op"], {"q": qj, "doc": k, "got": got[k], "expected": exp[k],
                                                               "weighting": wcfg})
                    break
            # independence: limited and filtered searches report the same score for the same document
            r3 = s.search(q, limit=3)
            for h in r3:
                if h["k"] in got and not close(h.score, got[h["k"]]):
                    sig = "c09.score_depends_on_limit"
                    if any(x.get("boost", 1.0) > 1.0 and x["op"] in ("and", "or", "dismax") for x in walk(qj)):
                        # recorded finding (C05/C12): WrappingMatcher.replace() does not divide the threshold by the
                        # boost, so under a limit a boosted compound is rewritten too hard (pinned by
                        # tests/test_quality.py::test_replacements). Attributed only when the same query without the
                        # > 1 compound boosts scores the same with and without the limit.
                        from wv.props.c05 import strip_big_boosts
                        q0 = to_whoosh(strip_big_boosts(qj))
                        full0 = dict((h0["k"], h0.score) for h0 in s.search(q0, limit=None))
                        if all(close(h0.score, full0.get(h0["k"], h0.score)) for h0 in s.search(q0, limit=3)):
                            sig = "c09.known_trigger:compound_boost_gt1"
                    out.fail(sig, {"q": qj, "doc": h["k"], "limit3": h.score, "unlimited": got[h["k"]], "weighting": wcfg})
                    break
            # ... nor on whether the matching terms are recorded (which makes every matcher "need the current" entry)
            rt = s.search(q, limit=None, terms=True)
            for h in rt:
                if h["k"] in got and not close(h.score, got[h["k"]]):
                    out.fail("c09.score_depends_on_terms_recording", {"q": qj, "doc": h["k"], "with_terms": h.score,
                                                                      "without": got[h["k"]], "weighting": wcfg})
                    break
            rf = s.search(q, limit=None, filter=wq.Every("t"))
            for h in rf:
                if h["k"] in got and not close(h.score, got[h["k"]]):
                    out.fail("c09.score_depends_on_filter", {"q": qj, "doc": h["k"], "filtered": h.score,
                                                             "unfiltered": got[h["k"]]})
                    break
            # non-trivial: some hit for which a child of the root does not match
            kids = qj.get("qs") or [qj.get("a"), qj.get("b")]
            kids = [c for c in kids if c]
            try:
                ksets = [set(comp(c)) for c in kids]
            except Exception:
                ksets = []
            if nseg >= 2 and any(any(k not in ks for ks in ksets) for k in got):
                nt.append([wcfg["kind"], shape(qj), nseg])
        # ---- boost law: "each multiplied by query ... boosts".  Multiplying the boost of a query by f, or wrapping
        # the query as the only clause of an And / Or / DisjunctionMax with boost f, multiplies every score by f
        if not is_final:
            for qi, qj in enumerate(case["queries"]):
                f = (2.0, 0.5, 3.0)[qi % 3]
                variants = []
                if qj["op"] in BOOSTABLE:
                    variants.append(("boost_of_%s" % qj["op"], dict(qj, boost=qj.get("boost", 1.0) * f)))
                for wrap in ("or", "and", "dismax"):
                    variants.append(("only_clause_of_%s" % wrap, {"op": wrap, "qs": [qj], "boost": f}))
                try:
                    base, _ = run_alone(s, to_whoosh(qj))
                    for name, v in variants:
                        got, _ = run_alone(s, to_whoosh(v))
                        out.units += 1
                        if set(got) != set(base):
                            out.fail("c09.boost_law:docs:%s" % name, {"q": qj, "got": sorted(got), "expected": sorted(base)})
                            break
                        bad = [k for k in sorted(base) if not close(got[k], f * base[k], 1e-6)]
                        if bad:
                            out.fail("c09.boost_law:%s" % name, {"q": qj, "factor": f, "doc": bad[0], "got": got[bad[0]],
                                                                 "unboosted": base[bad[0]], "weighting": wcfg["kind"]})
                            break
                except (ValueError, ZeroDivisionError, OverflowError):
                    if wcfg["kind"] in ("pl2", "dfree"):
                        out.exclude("formula_domain_error")
                        continue
                    raise
    finally:
        s.close()
        if raw is not s:
            raw.close()
        ix.close()
    out.nontrivial = bool(nt)
    out.key = nt


# ---------------------------------------------------------------------------------------------------------
# one big segment: every implementation of Or (binary tree of unions, array-buffered union that works in parts of
# 2048 documents, the split hybrid) must give every document the same score

def strategy_union(tier):
    from wv.props import c01

    def widen(case):
        # every query becomes (part of) an Or with at least three clauses, built from the words of the recipe
        words = [r["w"] for r in case["recipe"]]
        qs = []
        for i, q in enumerate(case["queries"]):
            extra = [{"op": "term", "f": "t", "x": words[(i + j) % len(words)], "boost": [1.0, 2.0, 0.5][j % 3]} for j in range(2 + i % 3)]
            qs.append({"op": "or", "qs": [q] + extra, "boost": 1.0})
        return dict(case, queries=qs)
    return c01.strategy_big(tier).map(widen)


def run_union(case, out):
    from whoosh import query as wq
    from whoosh.filedb.filestore import RamStorage
    from wv import corpus
    from wv.refquery import to_whoosh, walk
    n = case["ndocs"]
    ix = RamStorage().create_index(corpus.build_schema({}))
    wr = ix.writer()
    for j in range(n):
        t = [r["w"] for r in case["recipe"] if j >= r["from"] and (j + r["offset"]) % r["period"] == 0]
        w = [r["w"] for r in case["kws"] if (j + r["offset"]) % r["period"] == 0]
        wr.add_document(**corpus.doc_kwargs({"k": "k%d" % j, "t": t, "w": w, "n": j % 50, "d": None, "g": None}))
    wr.commit()
    if case["deleted_period"]:
        wr = ix.writer()
        for j in range(case["deleted_period"] - 1, n, case["deleted_period"]):
            wr.delete_by_term("k", "k%d" % j)
        wr.commit(merge=False)

    def set_type(q, mt):
        if isinstance(q, wq.Or):
            q.matcher_type = mt
        for c in q.children():
            set_type(c, mt)
        return q

    s = ix.searcher()
    try:
        nt = False
        for qj in case["queries"]:
            if not any(x["op"] == "or" and len(x["qs"]) >= 3 for x in walk(qj)):
                out.exclude("query_without_or_of_3")
                continue
            res = {}
            for name, mt in (("auto", wq.Or.AUTO_MATCHER), ("tree", wq.Or.DEFAULT_MATCHER),
                             ("array", wq.Or.ARRAY_MATCHER)):
                # (Or.SPLIT_MATCHER refers to a matching.ArrayMatcher that does not exist: dead option, never chosen
                # automatically; not exercised)
                q = set_type(to_whoosh(qj), mt)
                res[name] = dict((h.docnum, h.score) for h in s.search(q, limit=None))
            base = res["tree"]
            for name in ("auto", "array"):
                other = res[name]
                if set(other) != set(base):
                    out.fail("c09.union_implementations_disagree:docs:%s" % name,
                             {"q": qj, "only_tree": sorted(set(base) - set(other))[:5], "only_other": sorted(set(other) - set(base))[:5]})
                    return
                bad = [(dn, base[dn], other[dn]) for dn in base
                       if abs(base[dn] - other[dn]) > 1e-5 * max(1.0, abs(base[dn]))]
                if bad:
                    out.fail("c09.union_implementations_disagree:scores:%s" % name,
                             {"q": qj, "first": [list(b) for b in sorted(bad)[:4]], "count": len(bad), "ndocs": n})
                    return
            out.units += 1
            if base and max(base) - min(base) > 2048:
                nt = True
        out.nontrivial = nt
        out.key = [n, case["recipe"], case["queries"]]
        out.label("ndocs_%d" % n)
    finally:
        s.close()
        ix.close()


SUBS = {
    "scores": Sub(run, strategy, quick=150, thorough=1500, quick_shards=8),
    "unionpaths": Sub(run_union, strategy_union, quick=3, thorough=50, quick_shards=8),
}
