"""C19 - fuzzy matching and spelling suggestions are exact with respect to edit distance."""
import itertools

from hypothesis import strategies as st

from whoosh import fields, query
from whoosh.filedb.filestore import RamStorage

from wv.runner import Sub
from wv.refquery import lev, osa, dl

PROP = "C19"
LEVEL = "exploration"
RULE = ("(1) small - enumeration: every query word of length 0-5 over {a,b} and 0-4 over {a,b,c} (enumerated, sharded), "
        "against the lexicon of all words of length 1-4 over the same alphabet and two generated sub-lexicons, for "
        "d in 0..3 and prefix p in 0..4 (incl. p > len(word)), on a one-segment index (automaton path) and a "
        "three-segment index (brute-force path): terms_within must contain every term within plain Levenshtein distance "
        "d sharing the prefix and nothing beyond Damerau-Levenshtein distance d (the docstring says Damerau-Levenshtein; "
        "where restricted and unrestricted Damerau disagree either is accepted), and one segment must agree with many. "
        "(2) sampled - generated lexicons over larger alphabets incl. multi-byte and non-BMP characters with term "
        "frequencies: terms_within as above, FuzzyTerm hits = documents containing such terms, correct_query(): words of the index stay, other words become an existing "
        "term within the distance sharing the prefix or stay when there is none; suggest(): existing "
        "terms within the distance, no duplicates, limit respected, nothing closer left out, ordered by (distance, "
        "descending frequency). Non-trivial = a (word, d, p) whose expected set is neither empty nor the whole lexicon; "
        "distinct by SHA-1 of the case.")
ASSUMPTIONS = [
    "for prefix > len(word) the whole word is the required prefix (the lenient reading both code paths implement)",
    "edit distance reference: Levenshtein (lower bound) and min(restricted, unrestricted Damerau-Levenshtein) (upper "
    "bound) computed by textbook dynamic programming in wv/refquery.py",
]
EXHAUSTIVE = {
    "quick": "query words: all of length 0-4 over {a,b} and 0-3 over {a,b,c}; d in 0..2; p in 0..3; full lexicon (len 1-4)",
    "thorough": "query words: all of length 0-5 over {a,b} and 0-4 over {a,b,c}; d in 0..3; p in 0..4; full lexicon (len 1-4) "
                "and two sub-lexicons",
}

_IX = {}


def words_over(alpha, lo, hi):
    return ["".join(p) for n in range(lo, hi + 1) for p in itertools.product(alpha, repeat=n)]


def build_index(lexicon, nseg, freqs=None):
    """one document per term occurrence group; terms spread over nseg segments (every term in >=1 segment)"""
    schema = fields.Schema(k=fields.STORED, t=fields.TEXT(spelling=False))
    ix = RamStorage().create_index(schema)
    lex = sorted(lexicon)
    for i in range(nseg):
        w = ix.writer()
        part = lex[i::nseg]
        for j, term in enumerate(part):
            n = (freqs or {}).get(term, 1)
            w.add_document(k="%s" % term, t=[term] * n)
        if not part:
            w.add_document(k="")  # a segment without any term in the field
        w.commit(merge=False)
    return ix


def hard(out):
    """any violation other than the two recorded findings (which must not end the exploration of a case)"""
    return any(not v["sig"].startswith("c19.known:") for v in out.violations)


def expected(lexicon, w, d, p):
    pre = w[:p]
    lo = set(t for t in lexicon if t.startswith(pre) and lev(t, w) <= d)
    hi = set(t for t in lexicon if t.startswith(pre) and min(osa(t, w), dl(t, w)) <= d)
    return lo, hi


def check_within(out, lexicon, readers, w, d, p, ctx):
    lo, hi = expected(lexicon, w, d, p)
    res = {}
    for name, r in readers.items():
        got = list(r.terms_within("t", w, d, prefix=p))
        gs = set(got)
        res[name] = gs
        gs_lex = gs & set(lexicon) | (gs - set(lexicon))
        missing = lo - gs
        extra = gs - hi
        if missing:
            out.fail("c19.terms_within_missing:%s" % name, dict(ctx, word=w, d=d, p=p, missing=sorted(missing)[:6]))
        if extra:
            out.fail("c19.terms_within_extra:%s" % name, dict(ctx, word=w, d=d, p=p, extra=sorted(extra)[:6]))
    names = sorted(res)
    if len(names) == 2 and res[names[0]] != res[names[1]] and not hard(out):
        diff = res[names[0]] ^ res[names[1]]
        if diff <= (hi - lo):
            # recorded finding: the one-segment reader uses a Levenshtein automaton (no transpositions), the
            # multi-segment reader brute-force Damerau-Levenshtein; pinned by tests/test_spelling.py
            out.fail("c19.known:one_vs_many_segments_transposition", dict(ctx, word=w, d=d, p=p, differ=sorted(diff)[:6]))
        else:
            out.fail("c19.one_vs_many_segments_differ", dict(ctx, word=w, d=d, p=p, differ=sorted(diff)[:6]))
    return lo, hi


# ---------------------------------------------------------------------------------------------------- small (enumerated)

def small_enum(tier, shard, nshards):
    if tier == "quick":
        qs = words_over("ab", 0, 4) + words_over("abc", 0, 3)
        ds, ps, subs = [0, 1, 2], [0, 1, 2, 3], [0]
    else:
        qs = words_over("ab", 0, 5) + words_over("abc", 0, 4)
        ds, ps, subs = [0, 1, 2, 3], [0, 1, 2, 3, 4], [0, 1, 2]
    qs = sorted(set(qs))
    i = 0
    for alpha in ("ab", "abc"):
        for sub in subs:
            for w in qs:
                if set(w) - set(alpha):
                    continue
                if i % nshards == shard:
                    yield {"alpha": alpha, "sub": sub, "word": w, "ds": ds, "ps": ps}
                i += 1


def lexicon_for(alpha, sub):
    full = words_over(alpha, 1, 4)
    if sub == 0:
        return full
    if sub == 1:
        return [t for i, t in enumerate(full) if i % 3 != 1]
    return [t for i, t in enumerate(full) if (i * 7) % 5 in (0, 3)]


def run_small(case, out):
    key = (case["alpha"], case["sub"])
    if key not in _IX:
        lex = lexicon_for(*key)
        ix1, ix3 = build_index(lex, 1), build_index(lex, 3)
        _IX[key] = (lex, ix1.reader(), ix3.reader())
    lex, r1, r3 = _IX[key]
    w = case["word"]
    nt = False
    for d in case["ds"]:
        for p in case["ps"]:
            lo, hi = check_within(out, lex, {"one_segment": r1, "three_segments": r3}, w, d, p,
                                  {"alpha": case["alpha"], "sub": case["sub"]})
            out.units += 1
            if 0 < len(hi) < len(lex):
                nt = True
            if hard(out):
                return
    out.nontrivial = nt


# ---------------------------------------------------------------------------------------------------- sampled

ALPHAS = ["abcd", "abé", "абв", "a\U0001f600b", "xyz中"]


@st.composite
def sampled_case(draw):
    alpha = draw(st.sampled_from(ALPHAS))
    word = st.text(alphabet=alpha, min_size=1, max_size=6)
    lex = draw(st.lists(word, min_size=1, max_size=25, unique=True))
    freqs = draw(st.lists(st.integers(1, 4), min_size=len(lex), max_size=len(lex)))
    base = draw(st.sampled_from(lex))
    qs = draw(st.lists(st.one_of(st.sampled_from(lex), st.text(alphabet=alpha, max_size=6), st.just(base[1:] + base[:1]),
                                 st.just(base[:1] + base[2:3] + base[1:2] + base[3:])), min_size=1, max_size=4))
    return {"lexicon": lex, "freqs": freqs, "words": qs, "nseg": draw(st.sampled_from([1, 2, 3])),
            "d": draw(st.sampled_from([1, 1, 2, 3])), "p": draw(st.sampled_from([0, 0, 1, 2, 7])),
            "limit": draw(st.sampled_from([1, 2, 3, 5, 10]))}


def run_sampled(case, out):
    lex = case["lexicon"]
    freqs = dict(zip(lex, case["freqs"]))
    ix1 = build_index(lex, 1, freqs)
    ixn = build_index(lex, case["nseg"], freqs) if case["nseg"] > 1 else None
    readers = {"one_segment": ix1.reader()}
    if ixn:
        readers["many_segments"] = ixn.reader()
    d, p = case["d"], case["p"]
    nt = False
    try:
        for w in case["words"]:
            lo, hi = check_within(out, lex, readers, w, d, p, {})
            if hard(out):
                return
            if 0 < len(hi) < len(lex):
                nt = True
            for name, ix in (("one_segment", ix1), ("many_segments", ixn)):
                if ix is None:
                    continue
                with ix.searcher() as s:
                    # FuzzyTerm = documents containing such terms
                    got = set(h["k"] for h in s.search(query.FuzzyTerm("t", w, maxdist=d, prefixlength=p), limit=None))
                    got.discard("")
                    if lo - got:
                        out.fail("c19.fuzzyterm_missing:%s" % name, {"word": w, "d": d, "p": p, "missing": sorted(lo - got)[:5]})
                    if got - hi:
                        out.fail("c19.fuzzyterm_extra:%s" % name, {"word": w, "d": d, "p": p, "extra": sorted(got - hi)[:5]})
                    # suggestions
                    limit = case["limit"]
                    sug = s.suggest("t", w, limit=limit, maxdist=d, prefix=p)
                    if len(sug) != len(set(sug)):
                        out.fail("c19.suggest_duplicates", {"word": w, "sug": sug})
                    if len(sug) > limit:
                        out.fail("c19.suggest_over_limit", {"word": w, "sug": sug, "limit": limit})
                    bad = [x for x in sug if x not in hi]
                    if bad:
                        out.fail("c19.suggest_not_within_distance", {"word": w, "d": d, "p": p, "bad": bad[:5], "sug": sug})
                    if w in sug:
                        # recorded finding (pinned by tests/test_spelling.py::test_reader_corrector)
                        out.fail("c19.known:suggest_returns_queried_word", {"word": w, "sug": sug})
                    rest = [x for x in sug if x != w]
                    cand_lo = lo - {w}
                    if len(sug) < limit and cand_lo - set(sug):
                        out.fail("c19.suggest_left_out_candidates", {"word": w, "d": d, "p": p, "sug": sug,
                                                                     "left_out": sorted(cand_lo - set(sug))[:5]})
                    # ordered by closeness, then (descending) frequency - under either distance variant
                    def ordered(dist):
                        keys = [(dist(x, w), -freqs.get(x, 1)) for x in rest]
                        return all(a <= b for a, b in zip(keys, keys[1:]))
                    if not (ordered(lev) or ordered(osa)):
                        out.fail("c19.suggest_order", {"word": w, "d": d, "sug": sug,
                                                       "lev_freq": [(lev(x, w), freqs.get(x, 1)) for x in rest]})
                    # the limit keeps the best ones: nothing strictly closer (under both variants) is left out
                    if len(sug) >= limit and rest:
                        worst = max(osa(x, w) for x in rest)
                        closer = [t for t in cand_lo - set(sug) if lev(t, w) < min(lev(x, w) for x in rest if osa(x, w) == worst)
                                  and osa(t, w) < worst]
                        if closer:
                            out.fail("c19.suggest_limit_dropped_closer_term", {"word": w, "sug": sug, "closer": sorted(closer)[:5]})
            if hard(out):
                return
        # terms_within() hands out lazy iterators: two of them, started before either is consumed, are independent
        if len(case["words"]) >= 2:
            w1, w2 = case["words"][0], case["words"][1]
            for name, r in readers.items():
                alone1, alone2 = sorted(r.terms_within("t", w1, d, prefix=p)), sorted(r.terms_within("t", w2, d, prefix=p))
                g1, g2 = r.terms_within("t", w1, d, prefix=p), r.terms_within("t", w2, d, prefix=p)
                both2, both1 = sorted(g2), sorted(g1)
                if both1 != alone1 or both2 != alone2:
                    out.fail("c19.terms_within_iterators_interfere:%s" % name,
                             {"words": [w1, w2], "d": d, "p": p, "alone": [alone1[:8], alone2[:8]], "together": [both1[:8], both2[:8]]})
        # correct_query(): words that are terms of the index stay; every other word is replaced by an existing term
        # within the distance that shares the required prefix (the best suggestion), or stays when there is none
        ws = [w for w in dict.fromkeys(case["words"]) if w]
        for name, ix in (("one_segment", ix1), ("many_segments", ixn)):
            if ix is None or not ws:
                continue
            with ix.searcher() as s:
                q = query.And([query.Term("t", w) for w in ws])
                c = s.correct_query(q, None, maxdist=d, prefix=p)
                got = [t.text for t in c.query.subqueries] if isinstance(c.query, query.And) else None
                if got is None or len(got) != len(ws):
                    out.fail("c19.correct_query_shape", {"words": ws, "corrected": repr(c.query)[:200]})
                    continue
                for w, g in zip(ws, got):
                    lo, hi = expected(lex, w, d, p)
                    if w in lex:
                        if g != w:
                            out.fail("c19.correct_query_changed_existing_word:%s" % name, {"word": w, "became": g})
                        continue
                    lo, hi = lo - {w}, hi - {w}
                    if g == w:
                        if lo:
                            out.fail("c19.correct_query_left_misspelling:%s" % name, {"word": w, "d": d, "p": p, "candidates": sorted(lo)[:5]})
                    elif g not in hi:
                        out.fail("c19.correct_query_replacement_not_within_distance:%s" % name,
                                 {"word": w, "d": d, "p": p, "became": g, "allowed": sorted(hi)[:8]})
                    else:
                        out.label("correct_query_replaced_a_word")
                        if p > 0:
                            out.label("correct_query_replaced_a_word_with_prefix")
    finally:
        for r in readers.values():
            r.close()
    out.nontrivial = nt
    out.label("segments_%d" % case["nseg"], "alpha_%d" % ALPHAS.index(next(a for a in ALPHAS if set("".join(lex)) <= set(a))))


SUBS = {
    "small": Sub(run_small, enum=small_enum, quick_shards=8),
    "sampled": Sub(run_sampled, lambda tier: sampled_case(), quick=150, thorough=2500, quick_shards=8),
}
