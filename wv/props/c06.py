"""C06 - segment layout is invisible: merge and optimize preserve all logical content."""
import copy

from hypothesis import strategies as st

from whoosh import query as wq
from whoosh import writing

from wv.runner import Sub
from wv.util import tempdir
from wv import corpus, gen
from wv.dump import dump, diff
from wv.refquery import to_whoosh, ref_eval

PROP = "C06"
LEVEL = "exploration"
RULE = ("Each case = a document-level operation list organised in epochs (epoch 1: adds incl. parent/child groups; "
        "later epochs: deletes / updates of keys from earlier epochs plus new adds, each key at most once per epoch, so "
        "the logical outcome does not depend on where commits fall inside an epoch) and 3 alternative physical "
        "histories: random partition of every epoch into commits, per commit merge=False | default | optimize | custom "
        "policy merging a generated subset of segments, codec block limit 1/3/128, compression 0/3, compound on/off, "
        "plain or buffered writer. The canonical logical dump (stored fields, live postings with weights/positions, "
        "field lengths, vectors, columns, probe-query results) of every variant must equal that of the reference "
        "(one commit per epoch, then optimize); without deletes term statistics and scores must agree too; after "
        "optimize no deleted documents remain and a removed field's terms are gone; group members stay adjacent and "
        "in order. Non-trivial = a variant in which a segment holding deleted documents is merged, or a group spans a "
        "would-be commit cut; distinct by SHA-1 of the variant skeletons.")
ASSUMPTIONS = [
    "multi-process writers are C18's subject; here only in-process front-ends (SegmentWriter, BufferedWriter)",
    "scores/statistics are compared only for delete-free operation lists (the documented caveat)",
]

PROBES = [
    {"op": "term", "f": "t", "x": "a", "boost": 1.0},
    {"op": "term", "f": "t", "x": "ab", "boost": 1.0},
    {"op": "phrase", "f": "t", "words": ["a", "b"], "slop": 2},
    {"op": "prefix", "f": "t", "x": "ab"},
    {"op": "or", "qs": [{"op": "term", "f": "t", "x": "b", "boost": 1.0}, {"op": "term", "f": "w", "x": "x", "boost": 1.0},
                        {"op": "term", "f": "t", "x": "abc", "boost": 2.0}], "boost": 1.0},
    {"op": "nrange", "f": "n", "start": -10, "end": 10, "se": False, "ee": False},
    {"op": "not", "q": {"op": "term", "f": "t", "x": "a", "boost": 1.0}},
]


@st.composite
def ops_s(draw):
    nextkey = [0]

    def newdoc(boosts=True):
        k = "k%d" % nextkey[0]
        nextkey[0] += 1
        return draw(gen.doc_s(st.just(k), boosts=boosts))

    epochs = []
    live = []
    nep = draw(st.integers(1, 3))
    groups_only = draw(st.integers(0, 2)) == 0  # a pure parent/child corpus (NestedParent is meaningful)
    for e in range(nep):
        ops = []
        used = set()
        if e > 0 and live and not groups_only:
            for _ in range(draw(st.integers(0, 4))):
                cand = [k for k in live if k not in used]
                if not cand:
                    break
                k = draw(st.sampled_from(cand))
                used.add(k)
                if draw(st.booleans()):
                    ops.append(["delk", k])
                    live.remove(k)
                else:
                    ops.append(["upd", draw(gen.doc_s(st.just(k), boosts=True))])
        for _ in range(draw(st.integers(1, 8))):
            if groups_only or draw(st.integers(0, 3)) == 0:
                grp = [newdoc() for _ in range(draw(st.integers(2, 4)))]
                grp[0]["g"] = "parent"
                for c in grp[1:]:
                    c["g"] = "child"
                ops.append(["group", grp])
                live.extend(d["k"] for d in grp)
            else:
                d = newdoc()
                ops.append(["add", d])
                live.append(d["k"])
        if draw(st.booleans()):
            ops = draw(st.permutations(ops))
        epochs.append(list(ops))
    return epochs


@st.composite
def variant_s(draw, epochs):
    """per epoch: cut points (taken modulo the epoch length at run time, so that shrinking the operation
    list keeps the case valid) and a list of per-commit options used round-robin"""
    opt = st.fixed_dictionaries({
        "merge": st.sampled_from(["no", "no", "default", "opt", "custom"]),
        "subset": st.lists(st.integers(0, 5), max_size=3),
        "blocklimit": st.sampled_from([1, 3, 128]),
        "inlinelimit": st.sampled_from([1, 1, 4]),
        "compression": st.sampled_from([0, 3]),
        "compound": st.booleans(),
        "writer": st.sampled_from(["seg", "seg", "buffered"]),
    })
    return [{"cuts": draw(st.lists(st.integers(1, 12), max_size=3)),
             "opts": draw(st.lists(opt, min_size=1, max_size=4))} for _ in epochs]


def expand_variant(case, variant):
    commits = []
    for ei, ops in enumerate(case["epochs"]):
        v = variant[ei % len(variant)] if variant else {"cuts": [], "opts": [dict(REF_OPT)]}
        n = len(ops)
        cuts = sorted(set(c % n for c in v["cuts"] if n and c % n)) if n > 1 else []
        prev = 0
        j = 0
        parts = []
        for c in cuts + [n]:
            if c > prev or not parts:
                parts.append([prev, c])
                prev = c
        for p in parts:
            o = dict(v["opts"][j % len(v["opts"])] if v["opts"] else REF_OPT)
            j += 1
            o["range"] = p
            commits.append(o)
        commits[-1]["epoch_end"] = True
    return commits


REF_OPT = {"merge": "no", "subset": [], "blocklimit": 128, "compression": 3, "compound": True, "writer": "seg"}


@st.composite
def case_s(draw):
    epochs = draw(ops_s())
    dyn_glob = draw(st.booleans())
    if dyn_glob:
        # some documents carry values in concrete fields of the glob field *_dyn
        for ops in epochs:
            for op in ops:
                for doc in (op[1] if op[0] == "group" else [op[1]] if op[0] in ("add", "upd") else []):
                    if doc.get("w"):
                        doc["dyn"] = {"a": list(doc["w"])} if len(doc["w"]) < 2 else {"a": doc["w"][:1], "b": doc["w"][1:]}
    return {
        "epochs": epochs,
        "variants": [draw(variant_s(epochs)) for _ in range(3)],
        "schema": {"dyn_glob": dyn_glob, "dyn_unstored": draw(st.booleans()), "t_vector": draw(st.booleans()), "g_sortable": draw(st.booleans()),
                   "n_sortable": draw(st.booleans()), "t_boost": draw(st.sampled_from([1.0, 2.0]))},
        "store": draw(st.sampled_from(["ram", "file"])),
        "remove_field": draw(st.booleans()),
    }


def strategy(tier):
    return case_s()


def _custom_policy(subset):
    def policy(writer, segments):
        from whoosh.reading import SegmentReader
        keep = []
        chosen = set(i % len(segments) for i in subset) if segments else set()
        for i, seg in enumerate(segments):
            if i in chosen:
                r = SegmentReader(writer.storage, writer.schema, seg)
                writer.add_reader(r)
                r.close()
            else:
                keep.append(seg)
        return keep
    return policy


def _apply_ops(w, ops):
    for op in ops:
        if not (isinstance(op, list) and op and isinstance(op[0], str)):
            from wv.runner import HarnessError
            raise HarnessError("malformed op")
        if op[0] == "add":
            w.add_document(**corpus.doc_kwargs(op[1]))
        elif op[0] == "upd":
            w.update_document(**corpus.doc_kwargs(op[1]))
        elif op[0] == "delk":
            w.delete_by_term("k", op[1])
        elif op[0] == "group":
            with w.group():
                for d in op[1]:
                    w.add_document(**corpus.doc_kwargs(d))


def build_variant(case, commits, path, info):
    from whoosh.codec.whoosh3 import W3Codec
    schema = corpus.build_schema(case["schema"])
    has_columns = any(fo.column_type for _, fo in schema.items())
    ix = corpus.create_index(case["store"], path, schema)
    epoch = 0
    for c in commits:
        ops = case["epochs"][epoch][c["range"][0]:c["range"][1]]
        kw = {"codec": W3Codec(blocklimit=c["blocklimit"], compression=c["compression"], inlinelimit=c.get("inlinelimit", 1))}
        if not c["compound"]:
            kw["compound"] = False
        ck = {}
        if c["merge"] == "no":
            ck["merge"] = False
        elif c["merge"] == "opt":
            ck["optimize"] = True
        elif c["merge"] == "custom":
            ck["mergetype"] = _custom_policy(c["subset"])
        # does this commit merge a segment that holds deletions?
        if c["merge"] in ("default", "opt", "custom"):
            r = ix.reader()
            if r.has_deletions() or any(op[0] in ("delk", "upd") for op in ops):
                info["merge_with_deletions"] = True
            r.close()
        use_buffered = c["writer"] == "buffered"
        if use_buffered and any(op[0] == "group" for op in ops):
            # BufferedWriter has no notion of groups (it may flush in the middle of one): use the plain writer there
            use_buffered = False
            info["buffered_avoided"] = info.get("buffered_avoided", 0) + 1
        if use_buffered:
            info["buffered_used"] = True
            bw = writing.BufferedWriter(ix, period=None, limit=3, writerargs=kw, commitargs=ck)
            _apply_ops(bw, ops)
            bw.close()
        else:
            w = ix.writer(**kw)
            _apply_ops(w, ops)
            w.commit(**ck)
        if c.get("epoch_end"):
            epoch += 1
    return ix


def reference_commits(case):
    out = []
    for ops in case["epochs"]:
        out.append({"range": [0, len(ops)], "merge": "no", "subset": [], "blocklimit": 128, "compression": 3,
                    "compound": True, "writer": "seg", "epoch_end": True})
    out[-1]["merge"] = "opt"
    return out


LOGICAL = ("doc_count", "stored", "iter_docs", "postings", "field_lengths", "vectors", "columns")


def probe_results(ix, with_scores):
    s = ix.searcher()
    try:
        res = []
        for qj in PROBES:
            r = s.search(to_whoosh(qj), limit=None)
            if with_scores:
                res.append(sorted((h["k"], round(h.score, 9)) for h in r))
            else:
                res.append(sorted(h["k"] for h in r))
        return res
    finally:
        s.close()


def check_groups(ix, case, out, tag):
    s = ix.searcher()
    try:
        touched = set(op[1] if op[0] == "delk" else op[1]["k"] for ops in case["epochs"] for op in ops
                      if op[0] in ("delk", "upd"))
        for ops in case["epochs"]:
            for op in ops:
                if op[0] != "group":
                    continue
                keys = [d["k"] for d in op[1]]
                if any(k in touched for k in keys):
                    continue  # a member was deleted/updated later: adjacency no longer promised for it
                nums = [s.document_number(k=k) for k in keys]
                if None in nums:
                    out.fail("c06.group_member_missing", [tag, keys, nums])
                    continue
                if nums != list(range(nums[0], nums[0] + len(nums))):
                    out.fail("c06.group_not_adjacent", [tag, keys, nums])
        # parent/child query agrees with the model: parents of children containing 'a'
        from whoosh.query import NestedParent, Term
        q = NestedParent(Term("g", "parent"), Term("t", "a"))
        got = sorted(h["k"] for h in s.search(q, limit=None))
        return got
    finally:
        s.close()


def expected_parents(case, model_docs):
    exp = set()
    live = dict((d["k"], d) for d in model_docs)
    final_groups = []
    for ops in case["epochs"]:
        for op in ops:
            if op[0] == "group":
                final_groups.append([d["k"] for d in op[1]])
            else:
                return None  # loose documents / deletes: the corpus is not a pure parent-child hierarchy
    for keys in final_groups:
        if not all(k in live for k in keys):
            return None  # groups disturbed by deletes/updates: parent/child result not promised
        if any("a" in (live[k].get("t") or []) for k in keys):  # a parent matching the sub-query maps to itself
            exp.add(keys[0])
    return sorted(exp)


def run(case, out):
    has_del = any(op[0] in ("delk", "upd") for ops in case["epochs"] for op in ops)
    skel = []
    with tempdir() as d:
        import os
        refdir = os.path.join(d, "ref")
        os.makedirs(refdir)
        rix = build_variant(case, reference_commits(case), refdir, {})
        ref = dump(rix, stats=not has_del)
        rprobe = probe_results(rix, not has_del)
        if ref["doc_count_all"] != ref["doc_count"] or ref["has_deletions"]:
            out.fail("c06.optimize_left_deletions:reference", [ref["doc_count_all"], ref["doc_count"]])
        # model of live docs for the parent/child expectation
        live = {}
        for ops in case["epochs"]:
            for op in ops:
                if op[0] == "add" or op[0] == "upd":
                    live[op[1]["k"]] = op[1]
                elif op[0] == "delk":
                    live.pop(op[1], None)
                elif op[0] == "group":
                    for dd in op[1]:
                        live[dd["k"]] = dd
        if sorted(live) != sorted(ref["stored"]):
            out.fail("c06.reference_docs_differ_from_model", [sorted(live), sorted(ref["stored"])])
        exp_par = expected_parents(case, live.values())
        got_par = check_groups(rix, case, out, "reference")
        if exp_par is not None and got_par != exp_par:
            out.fail("c06.nested_parent:reference", [got_par, exp_par])
        info_all = {}
        for vi, variant in enumerate(case["variants"]):
            commits = expand_variant(case, variant)
            info = {}
            vdir = os.path.join(d, "v%d" % vi)
            os.makedirs(vdir)
            ix = build_variant(case, commits, vdir, info)
            info_all.update(info)
            dv = dump(ix, stats=not has_del)
            for sec in LOGICAL:
                if dv.get(sec) != ref.get(sec):
                    out.fail("c06.dump_differs:" + sec, diff(ref.get(sec), dv.get(sec), sec))
            if not has_del:
                for sec in ("term_stats", "field_length_totals"):
                    if dv.get(sec) != ref.get(sec):
                        out.fail("c06.stats_differ:" + sec, diff(ref.get(sec), dv.get(sec), sec))
            vp = probe_results(ix, not has_del)
            if vp != rprobe:
                out.fail("c06.probe_results_differ" + ("" if has_del else ":scores"), [rprobe, vp])
            gp = check_groups(ix, case, out, "v%d" % vi)
            if exp_par is not None and gp != exp_par:
                out.fail("c06.nested_parent", [vi, gp, exp_par])
            # optimize: physically removes deleted docs (and the removed field), results unchanged
            w = ix.writer()
            if case["remove_field"]:
                w.remove_field("w")
            w.commit(optimize=True)
            do = dump(ix)
            if case["remove_field"]:
                # the lexicon itself (the dump only lists fields of the schema)
                rr = ix.reader()
                try:
                    left = sorted(set(fn for fn, _ in rr.all_terms()) & set(["w"]))
                    if left or "w" in list(rr.indexed_field_names()):
                        out.fail("c06.removed_field_still_present:lexicon", {"variant": vi})
                finally:
                    rr.close()
            if do["doc_count_all"] != do["doc_count"] or do["has_deletions"]:
                out.fail("c06.optimize_left_deletions", [vi, do["doc_count_all"], do["doc_count"]])
            for sec in LOGICAL:
                a, b = ref.get(sec), do.get(sec)
                if case["remove_field"] and sec in ("postings", "field_lengths"):
                    a = dict((k, v) for k, v in a.items() if k != "w")
                    if "w" in b:
                        out.fail("c06.removed_field_still_present:" + sec, sorted(b["w"])[:5] if b["w"] else "empty")
                        b = dict((k, v) for k, v in b.items() if k != "w")
                if a != b:
                    out.fail("c06.dump_differs_after_optimize:" + sec, diff(a, b, sec))
            ix.close()
            skel.append([[c["range"], c["merge"], c["blocklimit"], c["compound"], c["writer"]] for c in commits])
        rix.close()
    out.nontrivial = bool(info_all.get("merge_with_deletions")) or any(
        op[0] == "group" for ops in case["epochs"] for op in ops)
    out.key = skel
    if info_all.get("merge_with_deletions"):
        out.label("merge_with_deletions")
    if info_all.get("buffered_used"):
        out.label("buffered_writer_used")
    if info_all.get("buffered_avoided"):
        out.exclude("buffered_writer_avoided_group", info_all["buffered_avoided"])
    if has_del:
        out.label("has_deletes")
    else:
        out.label("delete_free_scores_compared")
    if case["remove_field"]:
        out.label("remove_field")


SUBS = {
    "layout": Sub(run, strategy, quick=30, thorough=400, quick_shards=8),
}
