"""C01 - search returns exactly the documents that satisfy the query, through every access path."""
from hypothesis import strategies as st

from wv.runner import Sub
from wv.util import tempdir
from wv import corpus, gen
from wv.refquery import ref_eval, to_whoosh, shape, walk

PROP = "C01"
LEVEL = "exploration"
RULE = ("Each case = a generated commit/merge/delete history (1-5 commits of 0-12 documents over a confusable "
        "vocabulary, deletes by key/docnum/term, updates, merge=False|default|optimize, posting block limit "
        "1/2/3/128) plus 6 generated query trees (all public query types, depth<=4, Or fan-out up to 7). Every "
        "query is run through search(limit=None), limit=1/2/|hits|-1 (len(), docs()), scored=False, sortedby a "
        "posting field and a column field, terms=True, docs_for_query, per-segment Query.docs and Query.docs on the "
        "top-level searcher and compared "
        "with a set-algebra reference evaluator over the document model. A (history, query) pair is non-trivial "
        "when the reference result is neither empty nor all documents and the index has >=2 segments or "
        "physically present deleted documents; distinct by SHA-1 of (query shape, segment count, deleted count, "
        "result size). bigsegment: one segment of 2049-5001 documents built from a generated periodic recipe (each "
        "word occurs in documents j with (j+offset) % period == 0 from some j on), optionally with every 7th / 2048th "
        "document deleted, 4 generated queries through the same access paths and the same reference; non-trivial = "
        "result neither empty nor everything. phrases: documents of up to 8 words over a two- or three-letter vocabulary "
        "(so words repeat and a phrase has several candidate chains of positions) in 1-3 segments with deletions; every "
        "phrase of 2 and 3 words over the vocabulary plus generated 4-5 word phrases, each with slop 1..4, through "
        "docs_for_query and search against the reference chain matcher; non-trivial = a >=3-word phrase with slop >=2 "
        "matching a document that repeats its second word. multiseg: 2-4 unmerged segments of 1-5 documents over three "
        "words; every binary operator (AndNot, AndMaybe, Require, And, Or, And-Not, AndNot over an Or) over every ordered "
        "pair of words through all access paths.")
ASSUMPTIONS = [
    "reference evaluator (wv/refquery.py) encodes the documented meaning of each query type",
    "FuzzyTerm is checked against an interval [Levenshtein, Damerau-Levenshtein] because the docs do not fix "
    "the variant (C19 decides the exact distance)",
    "Regex queries use re.match semantics (the Python re meaning of 'match')",
]


def strategy(tier):
    return st.fixed_dictionaries({
        "hist": gen.history_s(max_txs=5, max_docs=12),
        "queries": st.lists(gen.query_s(max_leaves=8), min_size=6, max_size=6),
        "store": st.sampled_from(["ram", "ram", "file"]),
    })


def _keys(searcher, docnums):
    return [searcher.stored_fields(dn)["k"] for dn in docnums]


def check_query(s, qj, docs, out, nseg, ndel, tag=""):
    lo, hi = ref_eval(qj, docs)
    q = to_whoosh(qj)
    paths = {}

    r = s.search(q, limit=None)
    full = _keys(s, [h.docnum for h in r])
    paths["limit_none"] = full
    paths["limit_none.docs()"] = _keys(s, r.docs())
    if len(r) != len(full):
        out.fail("c01.len_mismatch:limit_none", [qj, len(r), len(full)])
    if len(set(full)) != len(full):
        out.fail("c01.duplicate_hits:limit_none", [qj, full])
    fullset = set(full)
    for k in sorted(set([1, 2, max(1, len(full) - 1)])):
        r = s.search(q, limit=k)
        got = _keys(s, [h.docnum for h in r])
        if len(r) != len(fullset):
            out.fail("c01.len_mismatch:limit_k", [qj, k, len(r), len(fullset)])
        if len(got) != min(k, len(fullset)) or not set(got) <= fullset or len(set(got)) != len(got):
            out.fail("c01.limited_hits_wrong", [qj, k, got, sorted(fullset)])
        paths["limit_%d.docs()" % k] = _keys(s, r.docs())
    paths["unscored"] = _keys(s, [h.docnum for h in s.search(q, limit=None, scored=False)])
    paths["sortedby_k"] = _keys(s, [h.docnum for h in s.search(q, limit=None, sortedby="k")])
    paths["sortedby_n"] = _keys(s, [h.docnum for h in s.search(q, limit=None, sortedby="n")])
    r = s.search(q, limit=None, terms=True)
    paths["terms"] = _keys(s, [h.docnum for h in r])
    paths["docs_for_query"] = _keys(s, s.docs_for_query(q))
    seg = []
    if s.subsearchers:
        for sub, offset in s.subsearchers:
            seg.extend(_keys(s, [offset + d for d in q.docs(sub)]))
    else:
        seg = _keys(s, list(q.docs(s)))
    paths["per_segment_docs"] = seg
    # the same on the top-level searcher: matchers over all segments at once (MultiMatcher)
    paths["top_level_docs"] = _keys(s, list(q.docs(s)))

    for name, got in paths.items():
        gs = set(got)
        if len(gs) != len(got) and not name.endswith("docs()"):
            out.fail("c01.duplicates:" + name, [qj, got])
        missing = lo - gs
        extra = gs - hi
        if missing:
            out.fail("c01.missing:%s%s" % (name, tag), {"q": qj, "missing": sorted(missing), "got": sorted(gs)})
        if extra:
            out.fail("c01.extra:%s%s" % (name, tag), {"q": qj, "extra": sorted(extra), "expected": sorted(hi)})
        if gs != fullset and not (name == "top_level_docs" and lo != hi):
            # (a fuzzy term on a transposition is expanded per segment by one path and over the whole reader by the
            # other - the recorded C19 finding - so that path is only held to the reference interval then)
            out.fail("c01.paths_disagree:" + name, {"q": qj, "limit_none": sorted(fullset), name: sorted(gs)})
    return lo, hi


def run(case, out):
    with tempdir() as d:
        ix, model = corpus.build(case["hist"], case["store"], d, ref_eval, to_whoosh)
        docs = model.live()
        nseg, ndel = corpus.layout_signature(ix)
        out.label("segments_%s" % (nseg if nseg < 3 else "3+"), "deleted_present" if ndel else "no_deleted")
        s = ix.searcher()
        try:
            if s.doc_count() != len(docs):
                out.fail("c01.doc_count", [s.doc_count(), len(docs)])
            nt_keys = []
            for qj in case["queries"]:
                lo, hi = check_query(s, qj, docs, out, nseg, ndel)
                out.units += 1
                ops = set(x["op"] for x in walk(qj))
                for o in ops:
                    out.label("op_" + o)
                if any(x["op"] == "or" and len(x["qs"]) >= 3 for x in walk(qj)):
                    out.label("or_fanout3+")
                if lo != hi:
                    out.exclude("fuzzy_variant_ambiguous")
                if 0 < len(hi) < len(docs) and (nseg >= 2 or ndel > 0):
                    nt_keys.append([shape(qj), nseg, ndel, len(hi)])
            out.nontrivial = bool(nt_keys)
            out.key = nt_keys
        finally:
            s.close()
            ix.close()


# ---------------------------------------------------------------------------------------------------------
# one big segment: posting lists, skip blocks and the array-buffered union span several internal parts

def strategy_big(tier):
    word = st.fixed_dictionaries({"w": st.sampled_from(gen.VOCAB), "period": st.integers(2, 700),
                                  "offset": st.integers(0, 699), "from": st.integers(0, 3000)})
    return st.fixed_dictionaries({
        "ndocs": st.sampled_from([2049, 2050, 2100, 3000, 4097, 4100, 5000, 5001]),
        "recipe": st.lists(word, min_size=4, max_size=14),
        "kws": st.lists(st.fixed_dictionaries({"w": st.sampled_from(["x", "y", "z", "xy"]), "period": st.integers(2, 50),
                                               "offset": st.integers(0, 49), "from": st.just(0)}), max_size=3),
        "deleted_period": st.sampled_from([0, 0, 7, 2048]),
        "queries": st.lists(gen.query_s(max_leaves=8), min_size=4, max_size=4),
    })


def run_big(case, out):
    from whoosh.filedb.filestore import RamStorage
    n = case["ndocs"]
    docs = []
    for j in range(n):
        t = [r["w"] for r in case["recipe"] if j >= r["from"] and (j + r["offset"]) % r["period"] == 0]
        w = [r["w"] for r in case["kws"] if (j + r["offset"]) % r["period"] == 0]
        docs.append({"k": "k%d" % j, "t": t, "w": w, "n": (j * 7) % 91 - 45, "d": None, "g": None})
    ix = RamStorage().create_index(corpus.build_schema({}))
    wr = ix.writer()
    for dd in docs:
        wr.add_document(**corpus.doc_kwargs(dd))
    wr.commit()
    dp = case["deleted_period"]
    if dp:
        wr = ix.writer()
        for j in range(dp - 1, n, dp):
            wr.delete_by_term("k", "k%d" % j)
        wr.commit(merge=False)
        docs = [dd for j, dd in enumerate(docs) if (j + 1) % dp != 0]
    nseg, ndel = corpus.layout_signature(ix)
    if nseg != 1:
        from wv.runner import HarnessError
        raise HarnessError("expected one segment")
    s = ix.searcher()
    try:
        nt = []
        for qj in case["queries"]:
            lo, hi = check_query(s, qj, docs, out, nseg, ndel, tag=":bigsegment")
            out.units += 1
            if lo != hi:
                out.exclude("fuzzy_variant_ambiguous")
            if 0 < len(hi) < len(docs):
                nt.append([shape(qj), n, ndel, len(hi)])
            if any(x["op"] == "or" and len(x["qs"]) >= 3 for x in walk(qj)):
                out.label("or_fanout3+")
        out.nontrivial = bool(nt)
        out.key = nt
        out.label("ndocs_%d" % n)
    finally:
        s.close()
        ix.close()


# ---------------------------------------------------------------------------------------------------------
# phrases over a two/three-letter vocabulary: documents repeat words, so a phrase has several candidate chains

def strategy_phrases(tier):
    letters = st.sampled_from([["a", "b"], ["a", "b", "c"], ["a", "b", "c"]])
    return letters.flatmap(lambda al: st.fixed_dictionaries({
        "alphabet": st.just(al),
        "segments": st.lists(st.lists(st.lists(st.sampled_from(al), max_size=8), min_size=1, max_size=14),
                             min_size=1, max_size=3),
        "delete": st.lists(st.integers(0, 41), max_size=4, unique=True),
        "long": st.lists(st.lists(st.sampled_from(al), min_size=4, max_size=5), max_size=6),
        "blocklimit": st.sampled_from([2, 128]),
    }))


def run_phrases(case, out):
    import itertools
    from whoosh.filedb.filestore import RamStorage
    from whoosh.codec.whoosh3 import W3Codec
    from whoosh import fields as wf
    from wv.refquery import phrase_match
    ix = RamStorage().create_index(wf.Schema(k=wf.ID(stored=True, unique=True), t=wf.TEXT(phrase=True)))
    docs = {}
    n = 0
    for seg in case["segments"]:
        w = ix.writer(codec=W3Codec(blocklimit=case["blocklimit"]))
        for toks in seg:
            k = "k%d" % n
            n += 1
            docs[k] = list(toks)
            if toks:
                w.add_document(k=k, t=list(toks))
            else:
                w.add_document(k=k)
        w.commit(merge=False)
    dels = sorted(set("k%d" % (j % n) for j in case["delete"]))
    if dels:
        w = ix.writer()
        for k in dels:
            w.delete_by_term("k", k)
            docs.pop(k)
        w.commit(merge=False)
    al = case["alphabet"]
    phrases = [list(p) for ln in (2, 3) for p in itertools.product(al, repeat=ln)] + [list(p) for p in case["long"]]
    nt = 0
    with ix.searcher() as s:
        for words in phrases:
            for slop in (1, 2, 3, 4):
                qj = {"op": "phrase", "f": "t", "words": words, "slop": slop, "boost": 1.0}
                exp = set(k for k, toks in docs.items() if phrase_match(toks, words, slop))
                q = to_whoosh(qj)
                got = set(_keys(s, s.docs_for_query(q)))
                got2 = set(h["k"] for h in s.search(q, limit=None))
                out.units += 1
                if got != exp or got2 != exp:
                    out.fail("c01.%s:phrases" % ("missing" if (exp - got or exp - got2) else "extra"),
                             {"q": qj, "expected": sorted(exp), "docs_for_query": sorted(got), "search": sorted(got2),
                              "docs": dict((k, docs[k]) for k in sorted((exp ^ got) | (exp ^ got2)))})
                # several candidate chains: the first word or a middle word occurs more than once in a matching document
                if slop >= 2 and len(words) >= 3 and any(docs[k].count(words[1]) >= 2 for k in exp):
                    nt += 1
    out.nontrivial = nt > 0
    out.key = case
    out.label("segments_%d" % len(case["segments"]), "alphabet_%d" % len(al))


# ---------------------------------------------------------------------------------------------------------
# every binary operator over every pair of three words, on several tiny segments: the alignment cases of
# cursors that run off the end of one segment and continue in the next

def strategy_multiseg(tier):
    doc = st.lists(st.sampled_from(["a", "b", "c"]), max_size=3, unique=True)
    return st.fixed_dictionaries({
        "segments": st.lists(st.lists(doc, min_size=1, max_size=5), min_size=2, max_size=4),
        "delete": st.lists(st.integers(0, 19), max_size=2, unique=True),
    })


def run_multiseg(case, out):
    from whoosh.filedb.filestore import RamStorage
    ix = RamStorage().create_index(corpus.build_schema({}))
    docs = []
    for seg in case["segments"]:
        w = ix.writer()
        for toks in seg:
            dd = {"k": "k%d" % len(docs), "t": list(toks), "w": [], "n": len(docs), "d": None, "g": None}
            docs.append(dd)
            w.add_document(**corpus.doc_kwargs(dd))
        w.commit(merge=False)
    dels = sorted(set("k%d" % (j % len(docs)) for j in case["delete"]))
    if dels:
        w = ix.writer()
        for k in dels:
            w.delete_by_term("k", k)
        w.commit(merge=False)
        docs = [dd for dd in docs if dd["k"] not in dels]
    nseg, ndel = corpus.layout_signature(ix)
    T = lambda x: {"op": "term", "f": "t", "x": x, "boost": 1.0}
    nt = []
    with ix.searcher() as s:
        for x in "abc":
            for y in "abc":
                if x == y:
                    continue
                for qj in ({"op": "andnot", "a": T(x), "b": T(y)}, {"op": "andmaybe", "a": T(x), "b": T(y)},
                           {"op": "require", "a": T(x), "b": T(y)}, {"op": "and", "qs": [T(x), T(y)], "boost": 1.0},
                           {"op": "or", "qs": [T(x), T(y)], "boost": 1.0},
                           {"op": "and", "qs": [T(x), {"op": "not", "q": T(y)}], "boost": 1.0},
                           {"op": "andnot", "a": {"op": "or", "qs": [T(x), T(y)], "boost": 1.0},
                            "b": T([z for z in "abc" if z not in (x, y)][0])}):
                    lo, hi = check_query(s, qj, docs, out, nseg, ndel, tag=":multiseg")
                    out.units += 1
                    if 0 < len(hi) < len(docs):
                        nt.append(1)
    out.nontrivial = bool(nt) and nseg >= 2
    out.key = case
    out.label("segments_%d" % nseg)


SUBS = {
    "search": Sub(run, strategy, quick=50, thorough=300, quick_shards=8),
    "bigsegment": Sub(run_big, strategy_big, quick=3, thorough=60, quick_shards=8),
    "multiseg": Sub(run_multiseg, strategy_multiseg, quick=25, thorough=300, quick_shards=8),
    "phrases": Sub(run_phrases, strategy_phrases, quick=30, thorough=300, quick_shards=8),
}
