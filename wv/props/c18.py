"""C18 - storage back-ends and writer front-ends are interchangeable."""
import os
import threading

from hypothesis import strategies as st

from whoosh import writing, index
from whoosh.filedb.filestore import FileStorage, RamStorage, copy_to_ram
from whoosh.multiproc import MpWriter

from wv.runner import Sub, HarnessError
from wv.util import tempdir
from wv import corpus, gen
from wv.dump import dump, diff
from wv.props import c06
from wv.refquery import ref_eval, to_whoosh

PROP = "C18"
LEVEL = "exploration"
RULE = ("frontends: each case = a document-level operation list in epochs (as C06: adds, parent/child groups, deletes and "
        "updates of keys of earlier epochs) and 3 generated configurations from the product storage {directory with mmap, "
        "directory without mmap, RAM} x {compound, loose segment files} x front-end {plain writer, MpWriter with 1-4 "
        "processes / batch size 1-5 / merged or multi-segment, BufferedWriter with limit 1-5, AsyncWriter with the lock "
        "free, AsyncWriter while another writer holds the lock (harness-owned schedule: the holder commits or cancels "
        "after the AsyncWriter's commit() started its retry thread)} x commit {merge=False, default, optimize} x "
        "afterwards {as is, copy_to_ram, reopened from the directory}. Oracle: the canonical logical dump (stored "
        "fields, postings with weights and positions, lengths, vectors, column values, probe-query results) of every "
        "configuration equals that of the plain writer on a fresh directory; delete-free lists also agree on term "
        "statistics and scores; groups stay adjacent. Non-trivial = a configuration that used >=2 sub-processes, a "
        "held-lock AsyncWriter or a BufferedWriter that flushed inside an epoch. "
        "buffered: each case = a program of add / update / delete_by_term / commit (what the flush timer does) / "
        "search steps against one BufferedWriter (limit 1-6) over an index with generated committed documents; after "
        "every step BufferedWriter.searcher() must list exactly the model's documents (stored fields, term and numeric "
        "range searches), and after close() a fresh reader of the index must too. Non-trivial = a search while "
        ">=1 document is buffered and >=1 committed; distinct by SHA-1 of the case. "
        "flushtimer: each case = a program against a BufferedWriter on a directory index in which the flush timer "
        "'fires' at generated steps: commit() runs in a second thread (exactly what threading.Timer does) and is stopped "
        "by the storage wrapper before its k-th storage operation (k generated), the owner's next 1-2 steps (add / update / "
        "delete, or close()) run in their own thread, then the timer thread continues; no thread may raise, searchers "
        "taken between fires show exactly the model, and after close() the index holds exactly the model's documents. "
        "Non-trivial = the owner ran at least one step while a timer commit stood between two storage operations.")
ASSUMPTIONS = [
    "MpWriter needs storage that other processes can open: it is combined with directory storage only",
    "the BufferedWriter flush timer is represented by commit() calls: sequentially at generated points (buffered) and "
    "in a second thread stopped at a generated storage operation (flushtimer); wall-clock timers are not started so "
    "that every run is a function of the seed (if the writer serialises the two threads, which thread goes first is "
    "decided by a 0.3 s grace period and either order must satisfy the oracle)",
    "AsyncWriter's retry thread is real, but it cannot obtain the lock before the harness releases it, so the "
    "outcome does not depend on its timing; delay=1 ms",
]


def config_s():
    return st.fixed_dictionaries({
        "storage": st.sampled_from(["file", "file", "file_nommap", "ram"]),
        "compound": st.booleans(),
        "writer": st.sampled_from(["seg", "mp", "mp", "buffered", "async_free", "async_held"]),
        "procs": st.integers(1, 4),
        "batchsize": st.integers(1, 5),
        "multisegment": st.booleans(),
        "limit": st.integers(1, 5),
        "holder": st.sampled_from(["commit", "cancel"]),
        "merge": st.sampled_from(["no", "default", "opt"]),
        "after": st.sampled_from(["asis", "copy_to_ram", "reopen"]),
        # size of the in-memory posting pool in MB: the tiny one makes every writer (and every MpWriter sub-process)
        # spill sorted runs to temporary storage and merge them back
        "limitmb": st.sampled_from([128, 128, 0.0005]),
    })


@st.composite
def case_s(draw):
    epochs = draw(c06.ops_s())
    if draw(st.booleans()):
        # column values long enough that their length array needs a multi-byte typecode
        for ops in epochs:
            for op in ops:
                for doc in (op[1] if op[0] == "group" else [op[1]] if op[0] in ("add", "upd") else []):
                    if doc.get("g") == "g3":
                        doc["g"] = "g3" + "x" * 300
    c_column = draw(st.booleans())
    if c_column:
        # a column-only field: per-document data of a field that has no postings
        for ops in epochs:
            for op in ops:
                for doc in (op[1] if op[0] == "group" else [op[1]] if op[0] in ("add", "upd") else []):
                    if doc.get("n") is not None and doc["n"] % 3:
                        doc["c"] = "c%d" % doc["n"]
    return {
        "epochs": epochs,
        "configs": draw(st.lists(config_s(), min_size=3, max_size=3)),
        "schema": {"t_vector": draw(st.booleans()), "g_sortable": draw(st.booleans()),
                   "n_sortable": draw(st.booleans()), "t_boost": draw(st.sampled_from([1.0, 2.0])),
                   "c_column": c_column},
        # the last commit replaces the index (mergetype=CLEAR): an option that changes the logical result, so a
        # front-end that loses commit arguments is seen
        "clear_last": draw(st.sampled_from([False, False, True])),
    }


def strategy(tier):
    return case_s()


def build_config(case, cfg, path, info):
    schema = corpus.build_schema(case["schema"])
    kind = cfg["storage"]
    writer = cfg["writer"]
    if writer == "mp" and kind == "ram":
        kind = "file"
    if case.get("clear_last") and writer == "buffered":
        # (a BufferedWriter applies its commit arguments to every intermediate flush as well, which with CLEAR is a
        # different request from "one commit that replaces the index")
        writer = "seg"
    ix = corpus.create_index(kind, path, schema)
    kw = {}
    if not cfg["compound"]:
        kw["compound"] = False
    if cfg.get("limitmb", 128) != 128:
        kw["limitmb"] = cfg["limitmb"]
        info["pool_spills"] = True
    ck = {}
    if cfg["merge"] == "no":
        ck["merge"] = False
    elif cfg["merge"] == "opt":
        ck["optimize"] = True
    nep = len(case["epochs"])
    base_ck = ck
    for ei, ops in enumerate(case["epochs"]):
        ck = dict(base_ck)
        if case.get("clear_last") and ei == nep - 1 and nep > 1 and not any(op[0] in ("delk", "upd") for op in ops):
            ck = {"mergetype": writing.CLEAR}
            info["clear_last"] = True
        if writer == "seg":
            w = ix.writer(**kw)
            c06._apply_ops(w, ops)
            w.commit(**ck)
        elif writer == "mp":
            w = MpWriter(ix, procs=cfg["procs"], batchsize=cfg["batchsize"], multisegment=cfg["multisegment"], **kw)
            c06._apply_ops(w, ops)
            w.commit(**ck)
            info["mp_tasks"] = max(info.get("mp_tasks", 0), len(w.tasks))
        elif writer == "buffered":
            bw = writing.BufferedWriter(ix, period=None, limit=cfg["limit"], writerargs=kw, commitargs=ck)
            c06._apply_ops(bw, ops)
            nadds = sum(len(op[1]) if op[0] == "group" else 1 for op in ops if op[0] != "delk")
            if nadds > cfg["limit"]:
                info["buffered_flushed_inside"] = True
            bw.close()
        elif writer == "async_free":
            aw = writing.AsyncWriter(ix, delay=0.001, writerargs=kw)
            if aw.writer is None:
                raise HarnessError("lock unexpectedly held")
            c06._apply_ops(aw, ops)
            aw.commit(**ck)
        elif writer == "async_held":
            holder = ix.writer()
            aw = writing.AsyncWriter(ix, delay=0.001, writerargs=kw)
            if aw.writer is not None:
                raise HarnessError("lock unexpectedly free")
            c06._apply_ops(aw, ops)
            aw.commit(**ck)
            if cfg["holder"] == "commit":
                holder.commit(merge=False)
            else:
                holder.cancel()
            aw.join(60)
            if aw.is_alive():
                raise HarnessError("AsyncWriter thread did not finish")
            info["async_held"] = True
        else:
            raise HarnessError("unknown writer %r" % writer)
    if cfg["after"] == "copy_to_ram" and kind != "ram":
        ix.close()
        ix = copy_to_ram(FileStorage(path)).open_index()
        info["copied_to_ram"] = True
    elif cfg["after"] == "reopen" and kind != "ram":
        ix.close()
        ix = FileStorage(path, supports_mmap=(kind != "file_nommap")).open_index()
    return ix


REF = {"storage": "file", "compound": True, "writer": "seg", "merge": "no", "after": "asis"}


def run(case, out):
    has_del = any(op[0] in ("delk", "upd") for ops in case["epochs"] for op in ops)
    skel = []
    info_all = {}
    with tempdir() as d:
        refdir = os.path.join(d, "ref")
        os.makedirs(refdir)
        rix = build_config(case, REF, refdir, {})
        ref = dump(rix, stats=not has_del)
        rprobe = c06.probe_results(rix, not has_del)
        rix.close()
        for ci, cfg in enumerate(case["configs"]):
            info = {}
            cdir = os.path.join(d, "c%d" % ci)
            os.makedirs(cdir)
            ix = build_config(case, cfg, cdir, info)
            info_all.update(info)
            tag = cfg["writer"]
            dv = dump(ix, stats=not has_del)
            for sec in c06.LOGICAL:
                if dv.get(sec) != ref.get(sec):
                    out.fail("c18.dump_differs:%s:%s" % (sec, tag), {"cfg": cfg, "diff": diff(ref.get(sec), dv.get(sec), sec)})
            if not has_del:
                for sec in ("term_stats", "field_length_totals"):
                    if dv.get(sec) != ref.get(sec):
                        out.fail("c18.stats_differ:%s:%s" % (sec, tag), {"cfg": cfg, "diff": diff(ref.get(sec), dv.get(sec), sec)})
            vp = c06.probe_results(ix, not has_del)
            if vp != rprobe:
                out.fail("c18.probe_results_differ:%s%s" % (tag, "" if has_del else ":scores"), [cfg, rprobe, vp])
            if tag != "buffered":
                # BufferedWriter makes no promise about groups (it may flush inside one)
                gcase = dict(case, epochs=case["epochs"][-1:]) if info.get("clear_last") else case
                c06.check_groups(ix, gcase, _Prefix(out, "c18.%s." % tag), "c%d" % ci)
            ix.close()
            skel.append(sorted(cfg.items()))
            out.label("writer_" + tag, "storage_" + cfg["storage"], "after_" + cfg["after"])
    out.nontrivial = (info_all.get("mp_tasks", 0) >= 2 or bool(info_all.get("async_held"))
                      or bool(info_all.get("buffered_flushed_inside")))
    out.key = [skel, case["epochs"]]
    if info_all.get("mp_tasks", 0) >= 2:
        out.label("mp_two_or_more_processes")
    if has_del:
        out.label("has_deletes")
    if info_all.get("clear_last"):
        out.label("last_commit_CLEAR")
    if info_all.get("pool_spills"):
        out.label("posting_pool_spilled_to_runs")


class _Prefix(object):
    def __init__(self, out, prefix):
        self.out, self.prefix = out, prefix

    def fail(self, sig, detail):
        self.out.fail(self.prefix + sig.replace("c06.", ""), detail)


# ---------------------------------------------------------------------------------------------------------
# BufferedWriter's own searcher

@st.composite
def program_s(draw):
    keys = ["k%d" % i for i in range(8)]
    committed = draw(st.lists(gen.doc_s(st.sampled_from(keys[:5]), boosts=False), max_size=5, unique_by=lambda d: d["k"]))
    steps = []
    live = set(d["k"] for d in committed)
    for _ in range(draw(st.integers(1, 14))):
        kind = draw(st.sampled_from(["add", "add", "upd", "upd", "delk", "commit", "search", "search"]))
        if kind in ("add", "upd"):
            doc = draw(gen.doc_s(st.sampled_from(keys), boosts=False))
            # key discipline of a unique field: add_document only for a key that is not live
            steps.append(["upd" if doc["k"] in live else kind, doc])
            live.add(doc["k"])
        elif kind == "delk":
            k = draw(st.sampled_from(keys))
            steps.append(["delk", k])
            live.discard(k)
        else:
            steps.append([kind])
    return {"committed": committed, "steps": steps, "limit": draw(st.integers(1, 6)),
            "queries": draw(st.lists(gen.query_s(max_leaves=4), min_size=3, max_size=3)),
            "store": draw(st.sampled_from(["ram", "file"])),
            "schema": {"t_vector": False, "g_sortable": draw(st.booleans()), "n_sortable": draw(st.booleans()), "t_boost": 1.0}}


def strategy_buffered(tier):
    return program_s()


def _observe(searcher):
    return sorted(sorted((k, repr(v)) for k, v in sf.items()) for sf in searcher.reader().all_stored_fields())


def _expected(model_docs):
    return sorted(sorted((k, repr(d[k])) for k in ("k", "n", "g") if d.get(k) is not None) for d in model_docs)


def run_buffered(case, out):
    from whoosh import query as wq
    schema = corpus.build_schema(case["schema"])
    with tempdir() as d:
        ix = corpus.create_index(case["store"], d, schema)
        w = ix.writer()
        for doc in case["committed"]:
            w.add_document(**corpus.doc_kwargs(doc))
        w.commit()
        # the model: list of documents (adds may duplicate a key; update/delete remove every holder of the key)
        model = [dict(doc) for doc in case["committed"]]
        bw = writing.BufferedWriter(ix, period=None, limit=case["limit"])
        buffered = 0
        searched_mixed = False

        def check(where, searcher):
            exp = _expected(model)
            got = _observe(searcher)
            if got != exp:
                out.fail("c18.buffered_searcher_documents_differ:" + where, {"expected": exp, "got": got})
                return False
            # postings view: term and range searches see the same set
            for probe, pred in ((wq.Term("t", "a"), lambda m: "a" in (m.get("t") or [])),
                                (wq.Term("t", "ab"), lambda m: "ab" in (m.get("t") or [])),
                                (wq.Every("k"), lambda m: True)):
                gk = sorted(h["k"] for h in searcher.search(probe, limit=None))
                ek = sorted(m["k"] for m in model if pred(m))
                if gk != ek:
                    out.fail("c18.buffered_searcher_results_differ:" + where, {"query": repr(probe), "expected": ek, "got": gk})
                    return False
            # generated queries (all public query types) against the reference evaluator over the model
            for qj in case.get("queries", ()):
                lo, hi = ref_eval(qj, model)
                gk = set(h["k"] for h in searcher.search(to_whoosh(qj), limit=None))
                if not (lo <= gk <= hi):
                    out.fail("c18.buffered_searcher_query_differs:" + where,
                             {"query": qj, "missing": sorted(lo - gk), "extra": sorted(gk - hi)})
                    return False
            return True

        try:
            for step in case["steps"]:
                if step[0] == "add":
                    bw.add_document(**corpus.doc_kwargs(step[1]))
                    model.append(dict(step[1]))
                    buffered = 0 if buffered + 1 >= case["limit"] else buffered + 1
                elif step[0] == "upd":
                    bw.update_document(**corpus.doc_kwargs(step[1]))
                    model = [m for m in model if m["k"] != step[1]["k"]] + [dict(step[1])]
                    buffered = 0 if buffered + 1 >= case["limit"] else buffered + 1
                elif step[0] == "delk":
                    bw.delete_by_term("k", step[1])
                    model = [m for m in model if m["k"] != step[1]]
                elif step[0] == "commit":
                    bw.commit()
                    buffered = 0
                s = bw.searcher()
                try:
                    if buffered and len(model) > buffered:
                        searched_mixed = True
                    if not check(step[0], s):
                        return
                finally:
                    s.close()
        finally:
            bw.close()
        s = ix.searcher()
        try:
            check("after_close", s)
        finally:
            s.close()
        ix.close()
    out.nontrivial = searched_mixed
    out.key = case
    out.label("limit_%d" % case["limit"])
    if searched_mixed:
        out.label("search_over_committed_plus_buffered")


# ---------------------------------------------------------------------------------------------------------
# the flush timer: BufferedWriter.commit() running in another thread (what threading.Timer does) while the owner
# keeps using the writer.  The harness owns the schedule: the "timer" thread is stopped at a generated storage
# operation of its commit, the owner's next steps run, then the timer thread continues.

@st.composite
def timer_program_s(draw):
    keys = ["k%d" % i for i in range(8)]
    steps = []
    live = set()
    for _ in range(draw(st.integers(2, 12))):
        kind = draw(st.sampled_from(["add", "upd", "upd", "delk", "search", "fire", "fire"]))
        if kind in ("add", "upd"):
            doc = draw(gen.doc_s(st.sampled_from(keys), boosts=False))
            steps.append(["upd" if doc["k"] in live else kind, doc])
            live.add(doc["k"])
        elif kind == "delk":
            k = draw(st.sampled_from(keys))
            steps.append(["delk", k])
            live.discard(k)
        elif kind == "fire":
            # the timer fires now; its commit is stopped before its k-th storage operation while the owner runs
            # the next `during` steps
            steps.append(["fire", draw(st.integers(0, 60)), draw(st.integers(1, 2))])
        else:
            steps.append([kind])
    return {"steps": steps, "close_during_fire": draw(st.booleans()), "limit": draw(st.sampled_from([2, 3, 100])),
            "schema": {"t_vector": False, "g_sortable": draw(st.booleans()), "n_sortable": True, "t_boost": 1.0}}


def strategy_timer(tier):
    return timer_program_s()


def run_timer(case, out):
    from wv.faultfs import Clock, FaultStorage
    from wv.runner import _is_whoosh_frame
    schema = corpus.build_schema(case["schema"])
    with tempdir() as d:
        clock = Clock()
        ix = FaultStorage(d, clock).create_index(schema)
        bw = writing.BufferedWriter(ix, period=None, limit=case["limit"])
        model = {}
        errors = []
        state = {"timer": None, "pause_at": None, "count": 0, "paused": threading.Event(), "resume": threading.Event()}

        def on_tick(idx, kind, name):
            if threading.current_thread() is state["timer"]:
                if state["count"] == state["pause_at"]:
                    state["paused"].set()
                    state["resume"].wait(60)
                state["count"] += 1
        clock.on_tick = on_tick
        # the clock's re-entrancy guard is per process; the callback above does no storage work
        clock.__class__ = _ThreadAwareClock

        def guarded(fn, who):
            def run_():
                try:
                    fn()
                except BaseException as e:
                    errors.append((who, e, traceback.extract_tb(e.__traceback__)))
            return run_

        def apply(step):
            if step[0] in ("add", "upd"):
                (bw.add_document if step[0] == "add" else bw.update_document)(**corpus.doc_kwargs(step[1]))
            elif step[0] == "delk":
                bw.delete_by_term("k", step[1])

        def model_apply(step):
            if step[0] in ("add", "upd"):
                model[step[1]["k"]] = step[1]
            elif step[0] == "delk":
                model.pop(step[1], None)

        import traceback
        steps = list(case["steps"])
        i = 0
        interleaved = False
        closed = False
        while i < len(steps) and not errors:
            step = steps[i]
            i += 1
            if step[0] == "fire":
                state["pause_at"], state["count"] = step[1], 0
                state["paused"].clear()
                state["resume"].clear()
                t = threading.Thread(target=guarded(bw.commit, "timer"))
                state["timer"] = t
                t.start()
                while t.is_alive() and not state["paused"].is_set():
                    state["paused"].wait(0.005)
                if state["paused"].is_set():
                    # the timer's commit stands between two storage operations: the owner goes on
                    during = []
                    while len(during) < step[2] and i < len(steps) and steps[i][0] not in ("fire", "search"):
                        during.append(steps[i])
                        i += 1
                    close_now = case["close_during_fire"] and i >= len(steps)

                    def owner():
                        for st_ in during:
                            apply(st_)
                        if close_now:
                            bw.close()
                    u = threading.Thread(target=guarded(owner, "owner"))
                    u.start()
                    u.join(0.3)          # a thread-safe writer may make the owner wait for the timer's commit
                    state["resume"].set()
                    t.join(60)
                    u.join(60)
                    if t.is_alive() or u.is_alive():
                        out.fail("c18.flush_timer_deadlock", {"step": step})
                        return
                    for st_ in during:
                        model_apply(st_)
                    closed = closed or close_now
                    if during or close_now:
                        interleaved = True
                else:
                    t.join(60)
                state["timer"] = None
            elif step[0] == "search":
                s = bw.searcher()
                try:
                    got = sorted(sf["k"] for sf in s.reader().all_stored_fields())
                finally:
                    s.close()
                if got != sorted(model):
                    out.fail("c18.flush_timer:searcher_differs", {"got": got, "expected": sorted(model), "step": i})
                    return
            else:
                try:
                    apply(step)
                except Exception as e:
                    errors.append(("owner", e, traceback.extract_tb(e.__traceback__)))
                model_apply(step)
        if not closed and not errors:
            try:
                bw.close()
            except Exception as e:
                errors.append(("close", e, traceback.extract_tb(e.__traceback__)))
        if errors:
            who, e, tb = errors[0]
            if not any(_is_whoosh_frame(f) for f in tb):
                raise HarnessError("flushtimer harness error in %s: %r\n%s" % (who, e, "".join(traceback.format_list(tb))[-1200:]))
            wf = [f for f in tb if _is_whoosh_frame(f)][-1]
            out.fail("c18.flush_timer:%s_raises:%s" % (who, type(e).__name__),
                     {"error": repr(e)[:200], "where": "%s:%s" % (os.path.basename(wf.filename), wf.name)})
            try:
                ix.close()
            except Exception:
                pass
            return
        r = ix.reader()
        try:
            got = sorted(sf["k"] for sf in r.all_stored_fields())
        finally:
            r.close()
        if got != sorted(model):
            out.fail("c18.flush_timer:documents_lost_or_duplicated_after_close",
                     {"got": got, "expected": sorted(model)})
        ix.close()
    out.nontrivial = interleaved
    out.key = case
    if interleaved:
        out.label("owner_ran_inside_timer_commit")


from wv.faultfs import Clock as _Clock


class _ThreadAwareClock(_Clock):
    """Clock whose callback guard is not shared between threads (two threads tick here)."""

    def tick(self, kind, name):
        idx = self.n
        self.n += 1
        if self.on_tick is not None:
            self.on_tick(idx, kind, name)


SUBS = {
    "frontends": Sub(run, strategy, quick=12, thorough=150, quick_shards=8),
    "buffered": Sub(run_buffered, strategy_buffered, quick=60, thorough=1500, quick_shards=8),
    "flushtimer": Sub(run_timer, strategy_timer, quick=25, thorough=400, quick_shards=8),
}
