"""C10 - postings, term statistics and vectors read back exactly what was indexed."""
import json

from hypothesis import strategies as st

from whoosh import fields, formats, analysis, writing
from whoosh.analysis import Token
from whoosh.filedb.filestore import RamStorage
from whoosh.codec.whoosh3 import W3Codec
from whoosh.util.numeric import length_to_byte, byte_to_length

from wv.runner import Sub
from wv.dump import f32

PROP = "C10"
LEVEL = "exploration"
RULE = ("Each case = 1-40 documents whose token streams (term text incl. arbitrary unicode up to 300 chars, position "
        "with gaps, start/end character, per-token boost) are generated and fed through a harness tokenizer, a posting "
        "format (Existence, Frequency, Positions, Characters, PositionBoosts, CharacterBoosts) for postings and "
        "optionally another for vectors, field and document boosts, one 'hot' term whose posting-list length is set to "
        "n*blocklimit-1 / n*blocklimit / n*blocklimit+1, optional deletions, and a codec (W3Codec with block limit "
        "1..9|128, compression 0/3/9, inline limit 1..3; the in-memory codec behind BufferedWriter; PlainTextCodec). "
        "Oracle = a model of the format (not of the bytes): for every term the posting list holds exactly the containing "
        "live documents in ascending order with the expected frequency, float32 weight and decoded positions / "
        "characters / position boosts / character boosts; term_info (doc frequency, total weight, max weight, min/max "
        "length through the byte approximation, min/max id) equals the aggregates of the written list; every vector "
        "equals the transposed postings of its document. Non-trivial = a posting list spanning >=2 blocks or an inlined "
        "list; distinct by SHA-1 of (format, codec configuration, list-length profile).")
ASSUMPTIONS = [
    "statistics are compared against the as-written list (documented: deletions are not reflected until optimize)",
    "total term weight compared with 1e-5 relative tolerance (accumulated and stored in float32)",
]

FORMATS = {
    "Existence": formats.Existence, "Frequency": formats.Frequency, "Positions": formats.Positions,
    "Characters": formats.Characters, "PositionBoosts": formats.PositionBoosts,
    "CharacterBoosts": formats.CharacterBoosts,
}
SUPPORTS = {
    "Existence": [], "Frequency": [], "Positions": ["positions"], "Characters": ["positions", "characters"],
    "PositionBoosts": ["positions", "position_boosts"],
    "CharacterBoosts": ["positions", "characters", "position_boosts", "character_boosts"],
}


class JsonTokenizer(analysis.Tokenizer):
    """Harness tokenizer: the field value is a JSON list of [text, pos, startchar, endchar, boost]."""

    def __call__(self, value, positions=False, chars=False, keeporiginal=False, removestops=True, start_pos=0,
                 start_char=0, tokenize=True, mode='', **kwargs):
        t = Token(positions, chars, removestops=removestops, mode=mode, **kwargs)
        for text, pos, sc, ec, boost in json.loads(value):
            t.text = text
            t.boost = boost
            t.stopped = False
            if positions:
                t.pos = pos
            if chars:
                t.startchar = sc
                t.endchar = ec
            yield t


TERMS = ["a", "b", "ab", "hot", "zz", "é", "\U0001f600", "x" * 300, "中文", "a b"]
term_s = st.one_of(st.sampled_from(TERMS), st.sampled_from(TERMS[:5]),
                   st.text(alphabet=st.characters(blacklist_categories=("Cs",), min_codepoint=1), min_size=1, max_size=12))


@st.composite
def doc_tokens(draw):
    n = draw(st.integers(0, 8))
    toks = []
    pos = draw(st.integers(0, 3))
    char = draw(st.integers(0, 5))
    for _ in range(n):
        text = draw(term_s)
        ln = draw(st.integers(1, 6))
        toks.append([text, pos, char, char + ln, draw(st.sampled_from([1.0, 1.0, 0.5, 2.0, 1.5]))])
        pos += draw(st.sampled_from([1, 1, 1, 2, 5]))
        char += ln + draw(st.integers(0, 3))
    return toks


@st.composite
def case_s(draw):
    fmt = draw(st.sampled_from(sorted(FORMATS)))
    codec = draw(st.one_of(
        st.builds(lambda b, c, i: {"kind": "w3", "blocklimit": b, "compression": c, "inlinelimit": i},
                  st.sampled_from([1, 2, 3, 4, 5, 9, 128]), st.sampled_from([0, 3, 9]), st.sampled_from([1, 1, 2, 3])),
        st.just({"kind": "memory"}), st.just({"kind": "plain"})))
    ndocs = draw(st.integers(1, 30))
    docs = [{"tokens": draw(doc_tokens()), "boost": draw(st.sampled_from([1.0, 1.0, 0.5, 2.0]))} for _ in range(ndocs)]
    # hot term: list length around a block multiple
    b = codec.get("blocklimit", 4)
    if b > 9:
        b = 4
    want = max(1, min(ndocs, b * draw(st.integers(1, 3)) + draw(st.sampled_from([-1, 0, 1]))))
    for i, d in enumerate(docs):
        has = any(t[0] == "hot" for t in d["tokens"])
        if i < want and not has:
            last = d["tokens"][-1] if d["tokens"] else ["", -1, 0, 0, 1.0]
            d["tokens"].append(["hot", last[1] + 1, last[3] + 1, last[3] + 4, 1.0])
        elif i >= want and has:
            d["tokens"] = [t for t in d["tokens"] if t[0] != "hot"]
    if codec["kind"] == "plain":
        # the debugging codec cannot represent terms outside latin-1 or containing its own syntax characters
        # (recorded finding C10-plaintext-term-charset): restrict it to plain alphanumeric terms
        safe = ["a", "b", "ab", "hot", "zz"]
        n_unsafe = 0
        for d in docs:
            for t in d["tokens"]:
                if t[0] not in safe:
                    t[0] = safe[sum(map(ord, t[0])) % len(safe)]
                    n_unsafe += 1
    return {
        "format": fmt,
        "vformat": draw(st.sampled_from([None, None, "same", "Frequency", "Positions", "Characters"])),
        "field_boost": draw(st.sampled_from([1.0, 1.0, 2.0, 0.5])),
        "codec": codec,
        "docs": docs,
        "delete": draw(st.one_of(st.just([]), st.just([]), st.lists(st.integers(0, 40), max_size=3))) if codec["kind"] == "w3" else [],
        "segments": draw(st.sampled_from([1, 2, 2, 3])) if codec["kind"] == "w3" else 1,
        "merge_after": draw(st.sampled_from([True, True, False])),
    }


def strategy(tier):
    return case_s()


def tokens2(d):
    """token stream of the second field f2: the first half of the document's tokens (so that the two scorable
    fields of a document have different lengths)"""
    return d["tokens"][:len(d["tokens"]) // 2]


def expected_postings(case, sel=lambda d: d["tokens"]):
    """term -> list of entries (docidx, freq, weight, positions, chars, posboosts, charboosts) in doc order"""
    fmt = case["format"]
    fb = case["field_boost"]
    post = {}
    lengths = []
    for di, d in enumerate(case["docs"]):
        per = {}
        for text, pos, sc, ec, boost in sel(d):
            per.setdefault(text, []).append((pos, sc, ec, boost))
        length = 0
        for text, occ in per.items():
            if fmt == "Existence":
                freq, w = 1, fb
            else:
                freq = len(occ)
                w = sum(o[3] for o in occ) * fb
            length += freq
            w = f32(w * d["boost"])
            post.setdefault(text, []).append({
                "doc": di, "freq": freq, "weight": w,
                "positions": [o[0] for o in occ],
                "characters": [[o[0], o[1], o[2]] for o in occ],
                "position_boosts": [[o[0], (o[3] if fmt in ("PositionBoosts", "CharacterBoosts") else 1)] for o in occ],
                "character_boosts": [[o[0], o[1], o[2], o[3]] for o in occ],
            })
        lengths.append(length)
    return post, lengths


def make_field(case):
    fmt = FORMATS[case["format"]](field_boost=case["field_boost"])
    vf = case["vformat"]
    vector = None
    if vf == "same":
        vector = True
    elif vf:
        vector = FORMATS[vf](field_boost=case["field_boost"])
    return fields.FieldType(fmt, JsonTokenizer(), scorable=True, stored=False, vector=vector)


def close32(a, b):
    return abs(a - b) <= 1e-6 * max(1.0, abs(a), abs(b))


def run(case, out):
    schema = fields.Schema(k=fields.STORED, f=make_field(case), f2=make_field(case))
    ix = RamStorage().create_index(schema)
    ck = case["codec"]
    docs = case["docs"]
    post, lengths = expected_postings(case)
    bw = None
    if ck["kind"] == "memory":
        bw = writing.BufferedWriter(ix, period=None, limit=10 ** 6)
        for i, d in enumerate(docs):
            bw.add_document(k=i, f=json.dumps(d["tokens"]), f2=json.dumps(tokens2(d)), _boost=d["boost"])
        reader = bw.reader()
        merged = False
    else:
        nseg = case["segments"]
        for sidx in range(nseg):
            if ck["kind"] == "w3":
                w = ix.writer(codec=W3Codec(blocklimit=ck["blocklimit"], compression=ck["compression"],
                                            inlinelimit=ck["inlinelimit"]))
            else:
                from whoosh.codec.plaintext import PlainTextCodec
                w = ix.writer(codec=PlainTextCodec())
            lo = len(docs) * sidx // nseg
            hi = len(docs) * (sidx + 1) // nseg
            for i in range(lo, hi):
                w.add_document(k=i, f=json.dumps(docs[i]["tokens"]), f2=json.dumps(tokens2(docs[i])),
                               _boost=docs[i]["boost"])
            w.commit(merge=False)
        dels = sorted(set(i % len(docs) for i in case["delete"]))
        if dels:
            w = ix.writer()
            for i in dels:
                w.delete_document(i)
            w.commit(merge=False)
        merged = False
        if case.get("merge_after") and not dels and nseg > 1 and ck["kind"] == "w3":
            # the same content after the segments have been merged into one (postings, vectors and statistics are
            # copied by the merge, not re-analysed)
            w = ix.writer(codec=W3Codec(blocklimit=ck["blocklimit"], compression=ck["compression"],
                                        inlinelimit=ck["inlinelimit"]))
            w.commit(optimize=True)
            merged = True
            out.label("merged_before_reading")
        reader = ix.reader()
    deleted = set(i % len(docs) for i in case["delete"]) if ck["kind"] == "w3" else set()
    multi_segment = case["segments"] > 1 and not (ck["kind"] != "memory" and merged)
    supports = SUPPORTS[case["format"]]
    blocky = False
    try:
        # lexicon
        lex = sorted(t.decode("utf8") for t in reader.lexicon("f"))
        if lex != sorted(post):
            out.fail("c10.lexicon", {"got": lex[:10], "expected": sorted(post)[:10]})
            return
        for text, entries in post.items():
            bt = text.encode("utf8")
            m = reader.postings("f", bt)
            live = [e for e in entries if e["doc"] not in deleted]
            got = []
            while m.is_active():
                g = {"doc": m.id(), "weight": m.weight()}
                for s in supports:
                    v = m.value_as(s)
                    g[s] = [list(x) if isinstance(x, (tuple, list)) else x for x in v]
                if case["format"] not in ("Existence",):
                    g["freq"] = m.value_as("frequency")
                got.append(g)
                m.next()
            # the same list object read a second time from the start, and its other ways of listing the documents
            if hasattr(m, "reset"):
                try:
                    m.reset()
                    again = []
                    while m.is_active():
                        again.append(m.id())
                        m.next()
                except NotImplementedError:
                    again = None
                if again is not None and again != [g["doc"] for g in got]:
                    out.fail("c10.posting_docs_after_reset", {"term": text[:20], "first_read": [g["doc"] for g in got][:40],
                                                              "after_reset": again[:40], "codec": ck})
                    return
            ids2 = list(reader.postings("f", bt).all_ids())
            if ids2 != [g["doc"] for g in got]:
                out.fail("c10.posting_all_ids", {"term": text[:20], "stepping": [g["doc"] for g in got][:40], "all_ids": ids2[:40],
                                                 "codec": ck})
                return
            if [g["doc"] for g in got] != [e["doc"] for e in live]:
                out.fail("c10.posting_docs", {"term": text, "got": [g["doc"] for g in got], "expected": [e["doc"] for e in live],
                                              "codec": ck})
                return
            for g, e in zip(got, live):
                if not close32(g["weight"], e["weight"]):
                    out.fail("c10.posting_weight:%s" % case["format"], {"term": text[:20], "doc": e["doc"], "got": g["weight"],
                                                                        "expected": e["weight"], "codec": ck,
                                                                        "field_boost": case["field_boost"]})
                    return
                if "freq" in g and g["freq"] != e["freq"]:
                    out.fail("c10.posting_frequency", {"term": text[:20], "doc": e["doc"], "got": g["freq"], "expected": e["freq"]})
                    return
                for s in supports:
                    exp = e[s]
                    gv = g[s]
                    if s in ("position_boosts", "character_boosts"):
                        same = len(gv) == len(exp) and all(a[:-1] == b[:-1] and close32(a[-1], b[-1]) for a, b in zip(gv, exp))
                    else:
                        same = gv == exp
                    if not same:
                        out.fail("c10.posting_value:%s:%s" % (case["format"], s),
                                 {"term": text[:20], "doc": e["doc"], "got": gv[:6], "expected": exp[:6], "codec": ck})
                        return
            # term statistics: aggregates of the as-written list
            if not multi_segment:
                ti = reader.term_info("f", bt)
                exp_df = len(entries)
                tw = sum(e["weight"] for e in entries)
                checks = [("doc_frequency", ti.doc_frequency(), exp_df),
                          ("max_weight", ti.max_weight(), max(e["weight"] for e in entries)),
                          ("min_id", ti.min_id(), entries[0]["doc"]), ("max_id", ti.max_id(), entries[-1]["doc"])]
                if ck["kind"] != "plain":
                    checks += [("min_length", ti.min_length(),
                                byte_to_length(length_to_byte(min(lengths[e["doc"]] for e in entries)))),
                               ("max_length", ti.max_length(),
                                byte_to_length(length_to_byte(max(lengths[e["doc"]] for e in entries))))]
                for name, gotv, expv in checks:
                    okv = close32(gotv, expv) if isinstance(expv, float) else gotv == expv
                    if not okv:
                        out.fail("c10.term_info:%s" % name, {"term": text[:20], "got": gotv, "expected": expv, "codec": ck})
                        return
                if abs(ti.weight() - tw) > 1e-5 * max(1.0, abs(tw)):
                    out.fail("c10.term_info:weight", {"term": text[:20], "got": ti.weight(), "expected": tw, "codec": ck})
                    return
                if reader.doc_frequency("f", bt) != exp_df or abs(reader.frequency("f", bt) - tw) > 1e-5 * max(1.0, tw):
                    out.fail("c10.reader_frequency", {"term": text[:20]})
                    return
            n = len(entries)
            if ck["kind"] == "w3" and (n > ck["blocklimit"] or (ck["inlinelimit"] > 1 and n < ck["inlinelimit"])):
                blocky = True
        # second scorable field of the same documents: posting docs/weights and term statistics
        post2, lengths2 = expected_postings(case, tokens2)
        for text, entries in post2.items():
            bt = text.encode("utf8")
            m = reader.postings("f2", bt)
            live = [e for e in entries if e["doc"] not in deleted]
            got = []
            while m.is_active():
                got.append((m.id(), m.weight()))
                m.next()
            if [g[0] for g in got] != [e["doc"] for e in live] or \
                    any(not close32(g[1], e["weight"]) for g, e in zip(got, live)):
                out.fail("c10.second_field_postings", {"term": text[:20], "got": got[:6],
                                                       "expected": [(e["doc"], e["weight"]) for e in live][:6]})
                return
            if not multi_segment and ck["kind"] != "plain":
                ti = reader.term_info("f2", bt)
                expmin = byte_to_length(length_to_byte(min(lengths2[e["doc"]] for e in entries)))
                expmax = byte_to_length(length_to_byte(max(lengths2[e["doc"]] for e in entries)))
                if (ti.min_length(), ti.max_length(), ti.doc_frequency()) != (expmin, expmax, len(entries)):
                    out.fail("c10.term_info:second_field_lengths",
                             {"term": text[:20], "got": [ti.min_length(), ti.max_length(), ti.doc_frequency()],
                              "expected": [expmin, expmax, len(entries)], "codec": ck})
                    return
        for i, ln in enumerate(lengths2):
            if i in deleted:
                continue
            got = reader.doc_field_length(i, "f2")
            exp = byte_to_length(length_to_byte(ln)) if ck["kind"] == "w3" else ln
            if got != exp:
                out.fail("c10.doc_field_length:second_field", {"doc": i, "got": got, "expected": exp, "codec": ck})
                return
        # field lengths
        for i, ln in enumerate(lengths):
            if i in deleted:
                continue
            got = reader.doc_field_length(i, "f")
            exp = byte_to_length(length_to_byte(ln)) if ck["kind"] == "w3" else ln
            if got != exp:
                out.fail("c10.doc_field_length", {"doc": i, "got": got, "expected": exp, "codec": ck})
                return
        # vectors = transposed postings
        if case["vformat"]:
            vname = case["format"] if case["vformat"] == "same" else case["vformat"]
            for i, d in enumerate(docs):
                if i in deleted:
                    continue
                terms = sorted(set(t[0] for t in d["tokens"]), key=lambda t: t.encode("utf8"))
                if not reader.has_vector(i, "f"):
                    if terms:
                        out.fail("c10.vector_missing", {"doc": i})
                        return
                    continue
                got = [(t.decode("utf8") if isinstance(t, bytes) else t) for t in reader.vector(i, "f").all_ids()]
                if got != terms:
                    out.fail("c10.vector_terms", {"doc": i, "got": got[:8], "expected": terms[:8]})
                    return
                if "positions" in SUPPORTS[vname]:
                    gotp = dict((t.decode("utf8") if isinstance(t, bytes) else t, list(v))
                                for t, v in reader.vector_as("positions", i, "f"))
                    expp = dict((t, [tok[1] for tok in d["tokens"] if tok[0] == t]) for t in terms)
                    if gotp != expp:
                        out.fail("c10.vector_positions", {"doc": i, "got": str(gotp)[:200], "expected": str(expp)[:200]})
                        return
                # weights: the transposed posting weights, document boost included
                if True:
                    fbv = case["field_boost"] * d["boost"]
                    gotw = dict((t.decode("utf8") if isinstance(t, bytes) else t, v)
                                for t, v in reader.vector_as("weight", i, "f"))
                    expw = dict((t, f32(fbv if vname == "Existence" else
                                        sum(tok[4] for tok in d["tokens"] if tok[0] == t) * fbv)) for t in terms)
                    if sorted(gotw) != sorted(expw) or any(not close32(gotw[t], expw[t]) for t in expw):
                        out.fail("c10.vector_weight", {"doc": i, "got": str(sorted(gotw.items()))[:200],
                                                       "expected": str(sorted(expw.items()))[:200], "vformat": vname})
                        return
                if vname != "Existence":
                    gotf = dict((t.decode("utf8") if isinstance(t, bytes) else t, v)
                                for t, v in reader.vector_as("frequency", i, "f"))
                    expf = dict((t, sum(1 for tok in d["tokens"] if tok[0] == t)) for t in terms)
                    if gotf != expf:
                        out.fail("c10.vector_frequency", {"doc": i, "got": str(gotf)[:200], "expected": str(expf)[:200]})
                        return
    finally:
        reader.close()
        if bw is not None:
            bw.close()
        ix.close()
    out.nontrivial = blocky
    out.key = [case["format"], case["vformat"], ck, sorted(set(len(v) for v in post.values()))[:8]]
    out.label("fmt_" + case["format"], "codec_" + ck["kind"])
    if ck["kind"] == "w3":
        out.label("blocklimit_%d" % ck["blocklimit"], "inline_%d" % ck["inlinelimit"])
    if deleted:
        out.label("with_deletions")


def run_plain_charset(case, out):
    """PlainTextCodec with a term outside latin-1 (recorded finding; the generator keeps the main sub-check away
    from such terms so that the rest of the codec is still explored)"""
    from whoosh.codec.plaintext import PlainTextCodec
    schema = fields.Schema(f=fields.TEXT(vector=True))
    ix = RamStorage().create_index(schema)
    w = ix.writer(codec=PlainTextCodec())
    try:
        w.add_document(f=[case["term"]])
        w.commit()
        with ix.reader() as r:
            got = [t.decode("utf8") for t in r.lexicon("f")]
        if got != [case["term"]]:
            out.fail("c10.known:plaintext_term_charset", {"term": case["term"], "lexicon": got})
    except (UnicodeError, AttributeError, ValueError) as e:
        out.fail("c10.known:plaintext_term_charset", {"term": case["term"], "err": repr(e)})
        try:
            w.cancel()
        except Exception:
            pass
    out.nontrivial = True


SUBS = {
    "postings": Sub(run, strategy, quick=150, thorough=2500, quick_shards=8),
    "plaintext_charset": Sub(run_plain_charset, lambda tier: st.fixed_dictionaries(
        {"term": st.sampled_from(["abc", "zz9", "hot"])}), quick=3, thorough=3, quick_shards=1),
}
