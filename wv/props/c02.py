"""C02 - a commit is atomic with respect to process crashes (fault enumeration over storage-operation boundaries)."""
import os
import re
import sys
import json
import shutil
import traceback

from hypothesis import strategies as st

from whoosh import index, fields, writing
from whoosh.filedb.filestore import FileStorage
from whoosh.index import TOC

from wv.runner import Sub, HarnessError
from wv.util import tempdir
from wv import corpus, gen
from wv.dump import dump, diff
from wv.faultfs import Clock, FaultStorage
from wv.props import c06

PROP = "C02"
LEVEL = "fault_enumeration"
RULE = ("Each case = a generated committed base history (1-3 transactions, 0-3 segments, deletions) plus one writer "
        "transaction under test: adds / updates / delete_by_term / delete_document, optionally add_field or "
        "remove_field, merge policy merge=False | default | optimize | CLEAR, compound or loose segment files, codec "
        "block limit 1/3/128, ended by commit() or cancel(). A storage wrapper numbers every operation the writer "
        "issues through the storage layer (create, every write, flush, close, rename, delete, lock acquire/release, "
        "temp-directory create/remove). For EVERY boundary k the directory that a death of the process at k leaves behind "
        "is materialised (copy of the directory = the bytes the OS already has; nothing unwound); every 16th boundary and "
        "every boundary from the creation of the TOC on is also produced for real, by a forked child that re-runs the "
        "transaction and dies with os._exit(137) at k, and must leave the same files. At a subset of boundaries (quick: "
        "every 7th, thorough: all, wider for very long transactions) three more survivors are made by putting the files still "
        "open into another prefix (all buffered bytes flushed / truncated to 0 / flushed and cut to half). Oracle on each "
        "surviving directory: open_dir succeeds; the logical dump and probe-query results equal exactly the dump before "
        "the transaction or exactly the dump after it (taken from an un-crashed run and cross-checked against the "
        "document model); a fresh writer gets the lock with timeout=0, adds a document and commits; the result equals "
        "that state plus the document; afterwards no file that matches the index's segment-file or TOC pattern "
        "belongs to a segment / generation outside the current TOC. One evaluation = one (transaction, boundary, "
        "prefix mode) crash; non-trivial = a crash strictly inside the transaction with >=1 file created by it on disk.")
ASSUMPTIONS = [
    "process death, not power loss: bytes handed to the OS survive, user-space buffers do not (the statement says 'the writing process dies')",
    "left-over temporary directories and temporary TOC files (names that match neither index pattern) are reported as labels, not as orphaned segment files",
]
EXHAUSTIVE = {
    "quick": "per generated transaction: every storage-operation boundary (mode as-is); other prefix modes at every 7th boundary",
    "thorough": "per generated transaction: every storage-operation boundary (mode as-is); the 3 other prefix modes at every boundary of transactions up to ~800 boundaries, at every n-th boundary of longer ones (n = boundaries*3/2500, 13 over ~100-segment bases)",
}

MODES = ("asis", "flush_all", "trunc0", "half")


def _ensure_work(case):
    tx = case["hist"]["txs"][-1]
    tx["end"] = case["end"]
    tx["merge"] = case["merge"] is not False
    tx["optimize"] = case["merge"] == "opt"
    if not tx["ops"]:
        tx["ops"].append(["add", {"k": "kx", "t": ["a", "b", "ab"], "w": ["x"], "n": 3, "d": None, "g": "g1"}])
    return case


def strategy(tier):
    schema = st.fixed_dictionaries({"t_vector": st.booleans(), "g_sortable": st.booleans(), "n_sortable": st.booleans()})
    return _case_s(tier, schema).map(_ensure_work)


def _case_s(tier, schema):
    return st.fixed_dictionaries({
        "hist": gen.history_s(max_txs=4, min_txs=1, max_docs=4, allow_cancel=True, schema_s=schema,
                              blocklimits=(1, 3, 128), merges=(False, False, True, "opt")),
        "compound": st.booleans(),
        "clear": st.sampled_from([False, False, False, False, True]),
        "end": st.sampled_from(["commit", "commit", "commit", "cancel"]),
        "merge": st.sampled_from([False, True, "opt", True]),
        "schema_change": st.sampled_from([None, None, None, "add", "remove"]),
        "mmap": st.booleans(),
        # single-document unmerged commits in front of the history: many small segments for the merge policy, and
        # generation numbers that gain a digit (9 -> 10, 99 -> 100) at or near the transaction under test
        "pad": st.sampled_from([0, 0, 0, 1, 4, 5, 6, 7, 8, 9, 10, 97, 98, 99] if tier != "quick" else
                               [0, 0, 1, 4, 5, 6, 7, 8, 9, 10]),
        "stride": st.just(7 if tier == "quick" else 1),
    })


def run_final(ix, case, tx):
    """The transaction under test, on whatever storage ix lives on."""
    from whoosh.codec.whoosh3 import W3Codec
    kw = {"codec": W3Codec(blocklimit=tx.get("blocklimit", 128))}
    if not case["compound"]:
        kw["compound"] = False
    w = ix.writer(**kw)
    if case["schema_change"] == "add":
        # (a name with a character outside [A-Za-z0-9_] ends up in the names of the field's per-document files)
        w.add_field("x-tra", fields.KEYWORD(stored=True, scorable=True, sortable=True))
    elif case["schema_change"] == "remove":
        w.remove_field("w")
    for op in tx["ops"]:
        if op[0] == "add":
            kwd = corpus.doc_kwargs(op[1])
            if case["schema_change"] == "add":
                kwd["x-tra"] = u"extra more"
            if case["schema_change"] == "remove":
                kwd.pop("w", None)
            w.add_document(**kwd)
        elif op[0] == "upd":
            kwd = corpus.doc_kwargs(op[1])
            if case["schema_change"] == "remove":
                kwd.pop("w", None)
            w.update_document(**kwd)
        elif op[0] == "delk":
            w.delete_by_term("k", op[1])
        elif op[0] == "delt":
            w.delete_by_term(op[1], op[2])
        elif op[0] == "deln":
            s = w.searcher()
            try:
                dn = s.document_number(k=op[1])
            finally:
                s.close()
            if dn is not None and not w.is_deleted(dn):
                w.delete_document(dn)
    if tx.get("end", "commit") == "cancel":
        w.cancel()
        return
    ck = {}
    if case["clear"]:
        ck["mergetype"] = writing.CLEAR
    elif tx.get("optimize"):
        ck["optimize"] = True
    elif not tx.get("merge"):
        ck["merge"] = False
    w.commit(**ck)


def snapshot(path):
    """Logical state of the index in a directory, opened the ordinary way."""
    ix = index.open_dir(path)
    try:
        d = dump(ix)
        d["_probes"] = c06.probe_results(ix, False)
        return d
    finally:
        ix.close()


def add_one_and_commit(path):
    ix = index.open_dir(path)
    try:
        w = ix.writer(timeout=0)
        w.add_document(k=u"zz_after", t=[u"a", u"zz"], n=7)
        w.commit()
    finally:
        ix.close()


def orphans(path):
    st_ = FileStorage(path)
    toc = TOC.read(st_, "MAIN")
    live = set(s.segment_id() for s in toc.segments)
    # a segment that was packed into a compound file consists of that file alone
    packed = set(s.segment_id() for s in toc.segments if getattr(s, "compound", False))
    tocp, segp = TOC._pattern("MAIN"), TOC._segment_pattern("MAIN")
    bad, other = [], []
    for fn in sorted(os.listdir(path)):
        m = tocp.match(fn)
        if m:
            if int(m.group(1)) != toc.generation:
                bad.append(fn)
            continue
        m = segp.match(fn)
        if m:
            if m.group(1) not in live:
                bad.append(fn)
            elif m.group(1) in packed and fn != m.group(1) + ".seg":
                bad.append(fn)
            continue
        if fn != "MAIN_WRITELOCK":
            other.append(fn)
    return bad, other


def tree_hash(path):
    import hashlib
    h = hashlib.sha1()
    for root, dirs, files in os.walk(path):
        dirs.sort()
        for fn in sorted(files):
            p = os.path.join(root, fn)
            h.update(re.sub(r"\.toc\.[0-9.]+$", ".toc.TMP", os.path.relpath(p, path)).encode("utf8") + b"\0")
            with open(p, "rb") as f:
                h.update(hashlib.sha1(f.read()).digest())
        for dn in dirs:
            h.update(os.path.relpath(os.path.join(root, dn), path).encode("utf8") + b"/\0")
    return h.hexdigest()


def run(case, out):
    hist = case["hist"]
    pad = [{"ops": [["add", {"k": "p%d" % i, "t": ["a", "c"] if i % 2 else ["b"], "w": [], "n": i, "d": None, "g": None}]],
            "end": "commit", "merge": False, "optimize": False, "blocklimit": 128} for i in range(case.get("pad", 0))]
    base_hist = {"txs": pad + hist["txs"][:-1], "schema": hist.get("schema")}
    tx = hist["txs"][-1]
    with tempdir() as d:
        base = os.path.join(d, "base")
        os.makedirs(base)
        bix, model = corpus.build(base_hist, "file", base)
        bix.close()
        old = snapshot(base)
        if sorted(old["stored"]) != sorted(model.keys()):
            out.fail("c02.committed_base_differs_from_model", {"got": sorted(old["stored"])[:12], "expected": sorted(model.keys())[:12]})
            return
        # un-crashed run with counting: number of boundaries, new state
        dry = os.path.join(d, "dry")
        shutil.copytree(base, dry)
        clock = Clock(record=True)
        clock.os_level = True
        ix = FaultStorage(dry, clock, supports_mmap=case["mmap"]).open_index()
        run_final(ix, case, tx)
        ix.close()
        nbound = clock.n
        events = clock.events
        new = snapshot(dry)
        ended_commit = tx.get("end", "commit") == "commit"
        if not ended_commit and new != old:
            out.fail("c02.cancel_changed_state", diff(old, new))
        created = [i for i, e in enumerate(events) if e[0] == "create"]
        first_create = created[0] if created else nbound
        # the two legal outcomes, each followed by one more commit
        refs = {}
        for name, src in (("old", base), ("new", dry)):
            p = os.path.join(d, "ref_" + name)
            shutil.copytree(src, p)
            add_one_and_commit(p)
            refs[name] = snapshot(p)
            bad, _ = orphans(p)
            if bad:
                out.fail("c02.orphans_without_crash", bad)
        out.units = 0
        seen_states = {}
        counters = {"nontrivial": 0, "old": 0, "new": 0, "forked": 0}
        stride = case.get("stride", 1)
        # keep one transaction within a few minutes: the three extra prefix modes are applied at every stride-th
        # boundary, and long transactions over many segments (where every judgement re-reads ~100 segments) get a
        # wider stride; the as-is mode is still applied at EVERY boundary
        stride = max(stride, -(-nbound * 3 // 2500), 13 if case.get("pad", 0) >= 90 else 1)
        work = os.path.join(d, "work")
        shutil.copytree(base, work)
        surv = os.path.join(d, "survivor")

        def judge(path, k, mode):
            """Apply the oracle to the directory a crash at boundary k (prefix mode) leaves behind."""
            out.units += 1
            th = tree_hash(path)
            if th in seen_states:
                side = seen_states[th]
                if side is not None:
                    counters[side] += 1
                    if old != new and k >= first_create:
                        counters["nontrivial"] += 1
                return th
            seen_states[th] = None
            where = {"boundary": k, "of": nbound, "mode": mode, "before_op": list(events[k]) if k < len(events) else None,
                     "prev_ops": [list(e) for e in events[max(0, k - 3):k]]}
            try:
                got = snapshot(path)
            except Exception as e:
                where["error"] = "".join(traceback.format_exception_only(type(e), e))[-400:]
                out.fail("c02.unreadable_after_crash:%s" % type(e).__name__, where)
                return th
            if got == old:
                side = "old"
            elif got == new:
                side = "new"
            else:
                where["vs_old"] = diff(old, got)[:6]
                where["vs_new"] = diff(new, got)[:6]
                out.fail("c02.mixed_state_after_crash", where)
                return th
            counters[side] += 1
            if old != new and k >= first_create:
                counters["nontrivial"] += 1
            try:
                add_one_and_commit(path)
                after = snapshot(path)
            except Exception as e:
                where["error"] = "".join(traceback.format_exception_only(type(e), e))[-400:]
                out.fail("c02.not_writable_after_crash:%s" % type(e).__name__, where)
                return th
            if after != refs[side]:
                where["diff"] = diff(refs[side], after)[:6]
                out.fail("c02.next_commit_differs_after_crash", where)
                return th
            bad, other = orphans(path)
            if bad:
                where["orphans"] = bad
                out.fail("c02.orphaned_segment_files_survive_next_commit", where)
            if other:
                out.label("leftover_temp_names")
            seen_states[th] = side
            return th

        asis_hash = {}
        listing = {}
        errors = []

        def materialise(k, mode, clock2):
            """What the disk holds if the process dies now: the bytes already handed to the OS (= the directory as it
            is), with the files still open put into the requested prefix."""
            shutil.rmtree(surv, ignore_errors=True)
            shutil.copytree(work, surv)
            if mode != "asis":
                for cf in list(clock2.open_files.values()):
                    rel = os.path.relpath(cf.path, work)
                    target = os.path.join(surv, rel)
                    content = bytes(cf.shadow)
                    if mode == "trunc0":
                        content = b""
                    elif mode == "half":
                        content = content[:len(content) // 2]
                    with open(target, "wb") as f:
                        f.write(content)

        def on_tick(k, kind, name):
            rstate = random.getstate()  # the oracle's own commits must not shift the names the writer will draw
            try:
                for mode in (MODES if k % stride == 0 else MODES[:1]):
                    materialise(k, mode, clock2)
                    if mode == "asis" and os.environ.get("WV_DEBUG_C02"):
                        listing[k] = sorted((os.path.relpath(os.path.join(r, f), surv), os.path.getsize(os.path.join(r, f)), __import__('hashlib').sha1(open(os.path.join(r, f),'rb').read()).hexdigest()[:8])
                                            for r, _, fs in os.walk(surv) for f in fs)
                    th = judge(surv, k, mode)
                    if mode == "asis":
                        asis_hash[k] = th
            except HarnessError:
                raise
            except BaseException as e:
                errors.append("".join(traceback.format_exception(type(e), e, e.__traceback__)))
            finally:
                random.setstate(rstate)

        import random
        random.seed(20240917)
        clock2 = Clock(on_tick=on_tick)
        clock2.os_level = True
        ix2 = FaultStorage(work, clock2, supports_mmap=case["mmap"]).open_index()
        run_final(ix2, case, tx)
        ix2.close()
        if errors:
            raise HarnessError("oracle failed inside a boundary callback: " + errors[0][-1500:])
        if clock2.n != nbound:
            raise HarnessError("transaction is not reproducible: %d vs %d boundaries" % (clock2.n, nbound))
        # real process deaths at a sample of boundaries (every 16th, and all from the TOC's creation on): the child
        # is forked, re-runs the transaction and dies with os._exit at k; what it leaves must be byte-identical to
        # the materialised survivor and is judged in its own right
        toc_create = [i for i, e in enumerate(events) if e[0] == "create" and ".toc" in e[1]]
        tail_from = toc_create[0] if toc_create else nbound
        for k in range(nbound):
            if not (k % 16 == 0 or k >= tail_from):
                continue
            cw = os.path.join(d, "childwork")
            shutil.rmtree(cw, ignore_errors=True)
            shutil.copytree(base, cw)
            sys.stdout.flush()
            sys.stderr.flush()
            pid = os.fork()
            if pid == 0:
                code = 3
                try:
                    random.seed(20240917)
                    ck = Clock(crash_at=k)
                    ck.os_level = True
                    cix = FaultStorage(cw, ck, supports_mmap=case["mmap"]).open_index()
                    run_final(cix, case, tx)
                    code = 0
                except BaseException:
                    try:
                        with open(os.path.join(d, "child_error.txt"), "w") as f:
                            traceback.print_exc(file=f)
                    except BaseException:
                        pass
                finally:
                    os._exit(code)
            _, status = os.waitpid(pid, 0)
            code = os.waitstatus_to_exitcode(status)
            if code == 3:
                raise HarnessError("child failed before its crash point: " + open(os.path.join(d, "child_error.txt")).read()[-1500:])
            if code != 137:
                raise HarnessError("child did not reach boundary %d of %d (exit %r)" % (k, nbound, code))
            counters["forked"] += 1
            if os.environ.get("WV_DEBUG_C02"):
                l2 = sorted((os.path.relpath(os.path.join(r, f), cw), os.path.getsize(os.path.join(r, f)), __import__('hashlib').sha1(open(os.path.join(r, f),'rb').read()).hexdigest()[:8])
                            for r, _, fs in os.walk(cw) for f in fs)
                if l2 != listing.get(k):
                    print("LISTING DIFF", k, events[k], [x for x in l2 if x not in listing[k]], [x for x in listing[k] if x not in l2])
            th = judge(cw, k, "process_death")
            if th != asis_hash.get(k):
                out.label("process_death_tree_differs_from_materialised")
                if os.environ.get("WV_DEBUG_C02"):
                    import subprocess
                    materialise_dbg = os.path.join(d, "dbg")
                    print("DIFF at", k, events[k], subprocess.run("ls -la %s %s/*.tmp" % (cw, cw), shell=True, capture_output=True, text=True).stdout[-1500:])
        nontrivial = counters["nontrivial"]
        sides = counters
    out.nontrivial = nontrivial > 0
    out.key = case
    out.label("boundaries_%s" % ("lt100" if nbound < 100 else "lt300" if nbound < 300 else "ge300"))
    out.label("end_" + tx.get("end", "commit"))
    if case["clear"]:
        out.label("CLEAR")
    if case["schema_change"]:
        out.label("schema_" + case["schema_change"])
    if sides["old"] and sides["new"]:
        out.label("both_sides_observed")
    out.label("compound" if case["compound"] else "loose")
    out.exclude("byte_identical_survivor_judged_once", out.units - len(seen_states))
    out.label("real_process_deaths_%s" % ("ge20" if counters["forked"] >= 20 else "lt20"))
    gen_before = model.generation
    if len(str(gen_before)) != len(str(gen_before + 1)):
        out.label("generation_gains_a_digit")


SUBS = {
    "crash": Sub(run, strategy, quick=3, thorough=16, quick_shards=8, case_timeout=3600),
}
