"""C11 - every matcher is a faithful forward cursor over its result list."""
from hypothesis import strategies as st

from whoosh import matching
from whoosh import query as wq
from whoosh.matching import mcore

from wv.runner import Sub
from wv import corpus, gen
from wv.refquery import to_whoosh, shape, walk
from wv.props import c05
from wv.props.c09 import make_weighting

PROP = "C11"
LEVEL = "exploration"
RULE = ("Each case = (a) a generated corpus (C05 generator: 1-4 segments, block limit 1-8, deletions) with a generated "
        "query tree (C05 grammar + span queries, Not, Every) turned into matchers per segment and over the whole index, "
        "in scored / boolean / needs_current contexts, or (b) a matcher tree built directly from generated ListMatchers "
        "(Union, Intersection, AndNot, AndMaybe, Require, DisjunctionMax, Inverse, Filter, Wrapping, ArrayUnion with "
        "part size 2-5, Multi). A pristine copy stepped only with next() gives the entry list (id, score, weight, "
        "spans); a generated program over {next, skip_to(t) with t below/at/between/above ids, skip_to_quality(0), "
        "replace(0), copy, reset, all_ids} is then run on a fresh matcher and after every step the cursor must sit on "
        "the modelled entry with the same id/score/spans; copies taken earlier must be unaffected; all_ids equals "
        "stepping; ids strictly increase. Non-trivial = list of >=3 entries and a program with a skip_to landing "
        "strictly between ids followed by a read, or replace/copy in mid-list; distinct by SHA-1 of (tree shape, "
        "program kinds, list length).")
ASSUMPTIONS = [
    "reset() is exercised only on matchers that were never replaced (docstring of Matcher.reset)",
    "ReadTooFar (or no-op) on an exhausted matcher is accepted for next()/skip_to()",
    "payload of an entry (score, weight, spans) is taken from a pristine copy stepped with next(): the property under "
    "test is path-independence; absolute scores are C09's subject",
]

# ------------------------------------------------------------------------------------------------- programs

op_s = st.one_of(
    st.tuples(st.just("next")),
    st.tuples(st.just("next")),
    st.tuples(st.just("skip_to"), st.integers(0, 40), st.sampled_from([-1, 0, 0, 1, 2])),  # (entry index, delta)
    st.tuples(st.just("skip_to"), st.integers(0, 40), st.sampled_from([-1, 0, 1])),
    st.tuples(st.just("skip_to_quality0")),
    st.tuples(st.just("replace0")),
    st.tuples(st.just("copy")),
    st.tuples(st.just("reset")),
    st.tuples(st.just("all_ids")),
)
program_s = st.lists(op_s.map(list), min_size=1, max_size=14)

# ------------------------------------------------------------------------------------------------- direct trees

ids_s = st.lists(st.integers(0, 30), max_size=12, unique=True).map(sorted)


def list_leaf_s():
    return st.builds(lambda ids, w: {"m": "list", "ids": ids, "w": w}, ids_s,
                     st.sampled_from([1.0, 0.5, 2.0]))


def tree_s():
    leaf = list_leaf_s()

    def extend(ch):
        return st.one_of(
            st.builds(lambda a, b: {"m": "union", "a": a, "b": b}, ch, ch),
            st.builds(lambda a, b: {"m": "inter", "a": a, "b": b}, ch, ch),
            st.builds(lambda a, b: {"m": "andnot", "a": a, "b": b}, ch, ch),
            st.builds(lambda a, b: {"m": "andmaybe", "a": a, "b": b}, ch, ch),
            st.builds(lambda a, b: {"m": "require", "a": a, "b": b}, ch, ch),
            st.builds(lambda a, b: {"m": "dismax", "a": a, "b": b}, ch, ch),
            st.builds(lambda a: {"m": "inverse", "a": a, "missing": []}, ch),
            st.builds(lambda a, ms: {"m": "inverse", "a": a, "missing": ms}, ch, st.lists(st.integers(0, 32), max_size=5)),
            st.builds(lambda a, ids, ex, b: {"m": "filter", "a": a, "ids": ids, "exclude": ex, "boost": b}, ch,
                      st.lists(st.integers(0, 30), max_size=10), st.booleans(), st.sampled_from([1.0, 1.0, 2.0, 0.5])),
            st.builds(lambda a, b: {"m": "wrap", "a": a, "boost": b}, ch, st.sampled_from([0.5, 2.0])),
            st.builds(lambda xs, ps, sc: {"m": "arrayunion", "xs": xs, "partsize": ps, "scored": sc},
                      st.lists(ch, min_size=2, max_size=4), st.sampled_from([2, 3, 5, 2048]), st.booleans()),
            st.builds(lambda xs: {"m": "multi", "xs": xs}, st.lists(list_leaf_s(), min_size=1, max_size=3)),
            st.builds(lambda a, s_: {"m": "const", "a": a, "score": s_}, ch, st.sampled_from([1.0, 2.5])),
        )
    return st.recursive(leaf, extend, max_leaves=5)


LIMIT = 33  # docnum space of the directly built trees


def build_tree(t):
    from whoosh import scoring
    k = t["m"]
    if k == "list":
        ids = list(t["ids"])
        return matching.ListMatcher(ids, [t["w"] * (1 + (i % 3)) for i in ids],
                                    scorer=scoring.WeightScorer(t["w"] * 3))
    if k == "union":
        return matching.UnionMatcher(build_tree(t["a"]), build_tree(t["b"]))
    if k == "inter":
        return matching.IntersectionMatcher(build_tree(t["a"]), build_tree(t["b"]))
    if k == "andnot":
        return matching.AndNotMatcher(build_tree(t["a"]), build_tree(t["b"]))
    if k == "andmaybe":
        return matching.AndMaybeMatcher(build_tree(t["a"]), build_tree(t["b"]))
    if k == "require":
        return matching.RequireMatcher(build_tree(t["a"]), build_tree(t["b"]))
    if k == "dismax":
        return matching.DisjunctionMaxMatcher(build_tree(t["a"]), build_tree(t["b"]))
    if k == "inverse":
        # as in Not.matcher(): the wrapped matcher never yields 'missing' (deleted) documents
        miss = frozenset(t["missing"])
        child = build_tree(t["a"])
        if miss:
            child = matching.FilterMatcher(child, miss, exclude=True)
        return matching.InverseMatcher(child, LIMIT, missing=miss.__contains__)
    if k == "filter":
        return matching.FilterMatcher(build_tree(t["a"]), frozenset(t["ids"]), exclude=t["exclude"],
                                      boost=t.get("boost", 1.0))
    if k == "wrap":
        return matching.WrappingMatcher(build_tree(t["a"]), boost=t["boost"])
    if k == "arrayunion":
        return matching.ArrayUnionMatcher([build_tree(x) for x in t["xs"]], LIMIT, partsize=t["partsize"],
                                          scored=t["scored"])
    if k == "multi":
        ms = [build_tree(x) for x in t["xs"]]
        return matching.MultiMatcher(ms, [i * LIMIT for i in range(len(ms))], scorer=scoring.WeightScorer(6.0))
    if k == "const":
        return matching.ConstantScoreWrapperMatcher(build_tree(t["a"]), t["score"])
    raise ValueError(k)


def tree_shape(t):
    k = t["m"]
    if k == "list":
        return "list"
    if "xs" in t:
        return [k] + [tree_shape(x) for x in t["xs"]]
    if "b" in t:
        return [k, tree_shape(t["a"]), tree_shape(t["b"])]
    return [k, tree_shape(t["a"])]


# ------------------------------------------------------------------------------------------------- cases

def strategy(tier):
    direct = st.fixed_dictionaries({"kind": st.just("direct"), "tree": tree_s(), "program": program_s})
    qspan = st.one_of(c05.query_s(), c05.query_s(), gen.span_s(),
                      st.builds(lambda q: {"op": "not", "q": q}, c05.query_s()))
    fromq = st.fixed_dictionaries({
        "kind": st.just("query"),
        "segments": st.lists(c05.docs_s(), min_size=1, max_size=3),
        "blocklimit": st.sampled_from([1, 2, 4, 8]),
        "inlinelimit": st.sampled_from([1, 1, 3, 6]),
        "delete": st.lists(st.integers(0, 200), max_size=6),
        "optimize": st.just(False),
        # (1.1 and 0.3 are not 32-bit floats: the stored weights are rounded, the bounds must follow)
        "schema": st.fixed_dictionaries({"t_boost": st.sampled_from([1.0, 1.0, 2.0, 1.1, 0.3])}),
        "weighting": st.sampled_from([{"kind": "bm25f", "B": 0.75, "K1": 1.2, "t_B": None}, {"kind": "tfidf"},
                                      {"kind": "frequency"}]),
        "query": qspan,
        "context": st.sampled_from(["scored", "boolean", "current"]),
        "level": st.sampled_from(["segment", "segment", "top"]),
        "program": program_s,
    })
    # simple roots over the whole index (matchers that span segments), with an all_ids() somewhere in the program
    term = st.builds(lambda x, b: {"op": "term", "f": "t", "x": x, "boost": b}, st.sampled_from(c05.VOC[:4]),
                     st.sampled_from([1.0, 1.0, 2.0]))
    simple = st.one_of(term, term, st.builds(lambda a, b: {"op": "and", "qs": [a, b], "boost": 1.0}, term, term),
                       # Or(..., scale=...): the coordination wrapper is a matcher like any other
                       st.builds(lambda a, b, sc: {"op": "or", "qs": [a, b], "boost": 1.0, "scale": sc}, term, term,
                                 st.sampled_from([0.5, 0.9])),
                       st.builds(lambda a, b: {"op": "andnot", "a": a, "b": b}, term, term))
    multi = st.builds(lambda case, q, segs, prog, at: dict(case, query=q, segments=segs, level="top",
                                                           program=prog[:at % (len(prog) + 1)] + [["all_ids"]] + prog[at % (len(prog) + 1):]),
                      fromq, simple, st.lists(c05.docs_s(), min_size=2, max_size=3),
                      st.lists(op_s.map(list), min_size=0, max_size=6), st.integers(0, 6))
    return st.one_of(direct, fromq, fromq, multi)


def close(a, b, tol=1e-9):
    return abs(a - b) <= tol * max(1.0, abs(a), abs(b))


def read_entry(m, want_spans):
    e = {"id": m.id()}
    try:
        e["score"] = m.score()
    except Exception as ex:  # some synthetic matchers have no score
        e["score_err"] = type(ex).__name__
    if want_spans:
        try:
            e["spans"] = sorted((s.start, s.end) for s in m.spans())
        except Exception as ex:
            e["spans_err"] = type(ex).__name__
    return e


def same_entry(a, b):
    if a["id"] != b["id"]:
        return False
    if ("score" in a) != ("score" in b):
        return False
    if "score" in a and not close(a["score"], b["score"]):
        return False
    if a.get("spans") != b.get("spans"):
        return False
    return True


def walk_entries(m, want_spans, cap=400):
    out = []
    while m.is_active():
        out.append(read_entry(m, want_spans))
        m.next()
        if len(out) > cap:
            raise AssertionError("matcher does not terminate")
    return out


def factories(case, out):
    """list of (tag, make) where make() returns a fresh matcher"""
    if case["kind"] == "direct":
        return [("direct", lambda: build_tree(case["tree"]), None)], tree_shape(case["tree"])
    ix, model = c05.build(case)
    s = ix.searcher(weighting=make_weighting(case["weighting"]))
    q = to_whoosh(case["query"])
    if case["context"] == "scored":
        ctx = s.context()
    elif case["context"] == "boolean":
        ctx = s.boolean_context()
    else:
        ctx = s.context(needs_current=True)
    facs = []
    if case["level"] == "top" or not s.subsearchers:
        facs.append(("top", lambda: q.matcher(s, ctx), s))
    else:
        for i, (sub, off) in enumerate(s.subsearchers):
            facs.append(("seg%d" % i, (lambda sub=sub: q.matcher(sub, ctx)), s))
    return facs, [shape(case["query"]), case["context"], case["level"]]


def run_program(make, program, out, tag, want_spans):
    try:
        entries = walk_entries(make(), want_spans)
    except wq.QueryError:
        out.exclude("query_error")
        return None
    ids = [e["id"] for e in entries]
    if any(b <= a for a, b in zip(ids, ids[1:])):
        out.fail("c11.ids_not_strictly_increasing", [tag, ids])
        return entries
    got = list(make().all_ids())
    if got != ids:
        out.fail("c11.all_ids_differs_from_stepping", [tag, got, ids])
    m = make()
    pos = 0
    replaced = False
    copies = []
    nontrivial = False
    kinds = []

    def check(where):
        active = m.is_active()
        if active != (pos < len(entries)):
            out.fail("c11.is_active_wrong:" + where, {"tag": tag, "pos": pos, "len": len(entries), "active": active,
                                                      "ids": ids})
            return False
        if active:
            e = read_entry(m, want_spans)
            if not same_entry(e, entries[pos]):
                what = "id" if e["id"] != entries[pos]["id"] else ("score" if e.get("score") != entries[pos].get("score") and "spans" not in e or e.get("spans") == entries[pos].get("spans") else "spans")
                out.fail("c11.wrong_entry_after:%s:%s" % (where, what),
                         {"tag": tag, "pos": pos, "got": e, "expected": entries[pos], "ids": ids})
                return False
        return True

    if not check("init"):
        return entries
    for op in program:
        name = op[0]
        kinds.append(name)
        if name == "next":
            if pos < len(entries):
                m.next()
                pos += 1
            # (calling next() on an exhausted matcher is a caller error: not exercised)
        elif name == "skip_to":
            if not entries:
                continue
            idx = op[1] % len(entries)
            t = entries[idx]["id"] + op[2]
            if t < 0:
                t = 0
            if pos < len(entries):
                cur = entries[pos]["id"]
                if t > cur:
                    newpos = pos
                    while newpos < len(entries) and entries[newpos]["id"] < t:
                        newpos += 1
                    if newpos < len(entries) and entries[newpos]["id"] > t and newpos > pos:
                        nontrivial = True
                else:
                    newpos = pos
                m.skip_to(t)
                pos = newpos
        elif name == "skip_to_quality0":
            if pos < len(entries) and m.supports_block_quality():
                m.skip_to_quality(0)
                if m.is_active():
                    cid = m.id()
                    newpos = pos
                    while newpos < len(entries) and entries[newpos]["id"] != cid:
                        newpos += 1
                    if newpos == len(entries):
                        out.fail("c11.skip_to_quality_landed_off_list", {"tag": tag, "id": cid, "ids": ids, "pos": pos})
                        return entries
                else:
                    newpos = len(entries)
                passed = [e for e in entries[pos:newpos] if e.get("score", 0) > 0]
                if passed:
                    out.fail("c11.skip_to_quality0_passed_positive_scores", {"tag": tag, "passed": passed[:4], "pos": pos})
                    return entries
                pos = newpos
        elif name == "replace0":
            m = m.replace(0)
            replaced = True
            if 0 < pos < len(entries):
                nontrivial = True
        elif name == "copy":
            try:
                c = m.copy()
            except NotImplementedError:
                # "copy() is independent of the original" for any matcher obtained from any query
                out.fail("c11.copy_not_implemented", {"tag": tag, "matcher": repr(m)[:200]})
                return entries
            copies.append((c, pos))
            if 0 < pos < len(entries):
                nontrivial = True
        elif name == "reset":
            if replaced:
                continue
            try:
                m.reset()
            except NotImplementedError:
                # a composite may now be half-reset: nothing further can be asserted about this object
                out.exclude("reset_not_implemented")
                break
            pos = 0
        elif name == "all_ids":
            # all_ids() on the matcher itself (not on a copy): what it leaves behind is unspecified, but reset() must
            # still return to the first entry and the whole list must be there again
            if replaced:
                continue
            try:
                got_ids = list(m.all_ids())
            except Exception as e:
                from wv.runner import _is_whoosh_frame
                import traceback as _tb
                if isinstance(e, mcore.ReadTooFar) and pos >= len(entries):
                    got_ids = None
                else:
                    raise
            if pos == 0 and got_ids is not None and got_ids != [e["id"] for e in entries]:
                out.fail("c11.all_ids_differs_from_stepping", [tag, got_ids[:40], [e["id"] for e in entries][:40]])
                return entries
            try:
                m.reset()
                walked = []
                while m.is_active() and len(walked) <= len(entries):
                    walked.append(m.id())
                    m.next()
                m.reset()
            except NotImplementedError:
                out.exclude("reset_not_implemented")
                break
            out.label("all_ids_then_reset_on_the_matcher_itself:" + tag.rstrip("0123456789"))
            if walked != [e["id"] for e in entries]:
                out.fail("c11.reset_after_all_ids_does_not_return_to_start",
                         {"tag": tag, "walked": walked[:40], "expected": [e["id"] for e in entries][:40]})
                return entries
            pos = 0
        if not check(name):
            return entries
    # copies must be unaffected by later operations on the original
    for c, cpos in copies:
        rest = walk_entries(c, want_spans)
        exp = entries[cpos:]
        if len(rest) != len(exp) or any(not same_entry(a, b) for a, b in zip(rest, exp)):
            out.fail("c11.copy_not_independent", {"tag": tag, "copy_taken_at": cpos, "got": [e["id"] for e in rest],
                                                  "expected": [e["id"] for e in exp]})
            break
    if len(entries) >= 3 and nontrivial:
        out.nontrivial = True
    out.key = (out.key or []) + [[tag.rstrip("0123456789"), kinds, len(entries)]]
    return entries


def run(case, out):
    facs, shp = factories(case, out)
    searcher = None
    try:
        for tag, make, s in facs:
            searcher = s
            # spans are read only where they are defined: the root is a term / positional / span query
            want_spans = case["kind"] == "query" and case["context"] == "current" and \
                case["query"]["op"] in ("phrase", "span_near2", "span_near", "span_first", "span_not", "span_or",
                                        "span_contains", "span_before", "sequence", "ordered", "term")
            run_program(make, case["program"], out, tag, want_spans)
            out.units += 1
    finally:
        if searcher is not None:
            searcher.close()
    out.key = [shp, out.key]
    out.label(case["kind"])
    if case["kind"] == "query":
        out.label("ctx_" + case["context"], "level_" + case["level"])
        for o in set(x["op"] for x in walk(case["query"])):
            out.label("op_" + o)
    else:
        def kinds(t):
            yield t["m"]
            for k in ("a", "b"):
                if k in t:
                    for x in kinds(t[k]):
                        yield x
            for x in t.get("xs", []):
                for y in kinds(x):
                    yield y
        for k in set(kinds(case["tree"])):
            out.label("m_" + k)


SUBS = {
    "cursor": Sub(run, strategy, quick=1200, thorough=8000, quick_shards=8),
}
