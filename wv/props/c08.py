"""C08 - stored values and column values come back unchanged for the right document."""
import datetime
import struct
from decimal import Decimal

from hypothesis import strategies as st

from whoosh import columns, fields, index, query
from whoosh.filedb.filestore import RamStorage, FileStorage, copy_to_ram

from wv.runner import Sub
from wv.util import tempdir, lb

PROP = "C08"
LEVEL = "exploration"
RULE = ("(1) column - for every column type (VarBytes with/without stored offsets, FixedBytes, RefBytes fixed/variable, "
        "Numeric for every typecode, Bit compressed/uncompressed, CompressedBytes, CompressedBlock, Struct, Pickle, "
        "VarBytesList, FixedBytesList) a generated doccount and sparse map docnum->value is written through "
        "column.writer and read back through column.reader from RAM, from a file with mmap and without; reader[i] must "
        "be the value or the column default for every i, and iteration must agree; the number of distinct RefBytes "
        "values is steered across 255/256/257 (thorough: 65535/65536/65537) and VarBytes totals across 2^15/2^16. "
        "(2) index - generated documents with arbitrary subsets of fields (unicode incl. non-BMP, ints at the limits of "
        "the bit width, floats incl. +-0.0/inf/denormals, Decimals, microsecond datetimes, booleans, arbitrary picklable "
        "STORED objects, the _stored_<field> override) are indexed through generated histories (1-3 commits, merge / "
        "optimize, compound or loose, mmap on/off, copy_to_ram) and every document's stored fields (stored_fields, "
        "Hit[...], all_stored_fields) and column values (column_reader(f)[docnum], Hit fallback to the column) are "
        "compared with what was supplied; unsupplied fields must be absent / the column default. Non-trivial: column = "
        ">=3 rows with a gap (default row) and a non-default value; index = >=2 segments or a merge; distinct by SHA-1 of "
        "the case.")
ASSUMPTIONS = [
    "column offsets beyond 2^31 bytes are not generated (2 GiB of data)",
    "float column values are compared by bit pattern",
]

# ---------------------------------------------------------------------------------------------------- column layer

byts = st.one_of(st.binary(max_size=12), st.binary(max_size=12), st.binary(min_size=40, max_size=300))
TYPECODES = {"b": (-128, 127), "B": (0, 255), "h": (-2 ** 15, 2 ** 15 - 1), "H": (0, 2 ** 16 - 1),
             "i": (-2 ** 31, 2 ** 31 - 1), "I": (0, 2 ** 32 - 1), "q": (-2 ** 63, 2 ** 63 - 1), "Q": (0, 2 ** 64 - 1)}


def _hex(b):
    return b.hex()


@st.composite
def column_case(draw, tier="quick"):
    kind = draw(st.sampled_from(["varbytes", "varbytes", "fixedbytes", "refbytes", "refbytes", "numeric", "numeric",
                                 "bit", "compressed", "struct", "pickle", "varlist", "fixedlist"]))
    spec = {"kind": kind}
    n = draw(st.integers(1, 40))
    vals = None
    if kind == "varbytes":
        spec["allow_offsets"] = draw(st.booleans())
        spec["cutoff"] = draw(st.sampled_from([0, 3, 2 ** 15]))
        big = draw(st.sampled_from([0, 0, 0, 2 ** 15, 2 ** 16]))
        vs = st.binary(max_size=20) if not big else byts
        vals = draw(st.dictionaries(st.integers(0, n - 1), vs.map(_hex), max_size=n))
        if big:
            # push the cumulative offset across the 2^15 / 2^16 boundary
            vals[str(0) if False else 0] = (b"x" * (big - 10)).hex()
    elif kind == "fixedbytes":
        ln = draw(st.integers(1, 8))
        spec["len"] = ln
        vals = draw(st.dictionaries(st.integers(0, n - 1), st.binary(min_size=ln, max_size=ln).map(_hex), max_size=n))
    elif kind == "refbytes":
        ln = draw(st.sampled_from([0, 0, 2, 4]))
        spec["len"] = ln
        uniq = draw(st.sampled_from([3, 10, 254, 255, 256, 257, 300] + ([65535, 65536, 65537] if tier == "thorough" else [])))
        spec["uniques"] = uniq
        n = draw(st.integers(1, 30)) if uniq < 100 else uniq + draw(st.integers(0, 20))
        # value i is a deterministic function of an index < uniq
        picks = draw(st.lists(st.integers(0, uniq - 1), min_size=0, max_size=30))
        gaps = draw(st.sets(st.integers(0, max(0, n - 1)), max_size=5))
        spec["picks"] = picks
        spec["gaps"] = sorted(gaps)
        vals = {}
    elif kind == "numeric":
        tc = draw(st.sampled_from(sorted(TYPECODES) + ["f", "d"]))
        spec["typecode"] = tc
        if tc in TYPECODES:
            lo, hi = TYPECODES[tc]
            vs = st.one_of(st.integers(lo, hi), st.sampled_from([lo, hi, 0, 1]))
            spec["default"] = draw(st.sampled_from([0, lo, hi]))
        else:
            vs = st.floats(allow_nan=False, width=32 if tc == "f" else 64).map(repr)
            spec["default"] = 0
        vals = draw(st.dictionaries(st.integers(0, n - 1), vs, max_size=n))
    elif kind == "bit":
        spec["compress_at"] = draw(st.sampled_from([0, 1, 2, 2048]))
        n = draw(st.integers(1, 80))
        vals = draw(st.dictionaries(st.integers(0, n - 1), st.booleans(), max_size=n))
    elif kind in ("compressed", "compressedblock"):
        spec["level"] = draw(st.sampled_from([1, 3, 9]))
        spec["blocksize"] = draw(st.sampled_from([1, 2, 32]))
        vals = draw(st.dictionaries(st.integers(0, n - 1), byts.map(_hex), max_size=n))
    elif kind == "struct":
        vals = draw(st.dictionaries(st.integers(0, n - 1),
                                    st.tuples(st.integers(-2 ** 15, 2 ** 15 - 1), st.integers(0, 2 ** 32 - 1)).map(list),
                                    max_size=n))
    elif kind == "pickle":
        spec["child"] = draw(st.sampled_from(["varbytes", "compressed"]))
        obj = st.recursive(st.one_of(st.none(), st.booleans(), st.integers(-2 ** 70, 2 ** 70), st.text(max_size=6),
                                     st.floats(allow_nan=False).map(repr)),
                           lambda ch: st.one_of(st.lists(ch, max_size=3), st.dictionaries(st.text(max_size=3), ch, max_size=3)),
                           max_leaves=5)
        vals = draw(st.dictionaries(st.integers(0, n - 1), obj, max_size=n))
    elif kind == "varlist":
        vals = draw(st.dictionaries(st.integers(0, n - 1), st.lists(st.binary(max_size=6).map(_hex), max_size=4), max_size=n))
    elif kind == "fixedlist":
        ln = draw(st.integers(1, 4))
        spec["len"] = ln
        vals = draw(st.dictionaries(st.integers(0, n - 1),
                                    st.lists(st.binary(min_size=ln, max_size=ln).map(_hex), max_size=4), max_size=n))
    spec["doccount"] = n
    spec["values"] = [[k, v] for k, v in sorted(vals.items())]
    spec["store"] = draw(st.sampled_from(["ram", "file", "file_nommap"]))
    spec["pad"] = draw(st.integers(0, 5))
    return spec


def materialize(spec):
    """(column object, {docnum: value}, default, comparable(value))"""
    kind = spec["kind"]
    vals = dict((int(k), v) for k, v in spec["values"])
    ident = lambda x: x  # noqa
    if kind == "varbytes":
        return (columns.VarBytesColumn(spec["allow_offsets"], spec["cutoff"]),
                dict((k, bytes.fromhex(v)) for k, v in vals.items()), b"", ident)
    if kind == "fixedbytes":
        return (columns.FixedBytesColumn(spec["len"]), dict((k, bytes.fromhex(v)) for k, v in vals.items()),
                b"\x00" * spec["len"], ident)
    if kind == "refbytes":
        ln, uniq, n = spec["len"], spec["uniques"], spec["doccount"]

        def val(i):
            if ln:
                return struct.pack(">I", i + 1)[-ln:] if ln >= 4 else struct.pack(">H", (i + 1) % 65536)[-ln:] + b""
            return b"v%d" % i
        out = {}
        gaps = set(spec["gaps"])
        if uniq >= 100:
            for d in range(n):
                if d not in gaps:
                    out[d] = val(d % uniq)
        for j, p in enumerate(spec["picks"]):
            d = (j * 7) % n
            if d not in gaps:
                out[d] = val(p)
        if ln == 2 and uniq > 65000:
            out = dict((d, v) for d, v in out.items())
        default = b"\x00" * ln if ln else b""
        return columns.RefBytesColumn(ln), out, default, ident
    if kind == "numeric":
        tc = spec["typecode"]
        if tc in ("f", "d"):
            st_ = struct.Struct("<" + tc)
            conv = dict((k, st_.unpack(st_.pack(float(v)))[0]) for k, v in vals.items())
            return (columns.NumericColumn(tc, default=0), conv, 0, float)  # compared by value (-0.0 == 0.0)
        return columns.NumericColumn(tc, default=spec["default"]), vals, spec["default"], ident
    if kind == "bit":
        return columns.BitColumn(spec["compress_at"]), dict((k, bool(v)) for k, v in vals.items()), False, bool
    if kind == "compressed":
        return (columns.CompressedBytesColumn(spec["level"]), dict((k, bytes.fromhex(v)) for k, v in vals.items()), b"",
                ident)
    if kind == "compressedblock":
        return (columns.CompressedBlockColumn(spec["level"], spec["blocksize"]),
                dict((k, bytes.fromhex(v)) for k, v in vals.items()), b"", ident)
    if kind == "struct":
        return (columns.StructColumn("!hI", (0, 0)), dict((k, tuple(v)) for k, v in vals.items()), (0, 0), tuple)
    if kind == "pickle":
        child = columns.VarBytesColumn() if spec["child"] == "varbytes" else columns.CompressedBytesColumn()
        return columns.PickleColumn(child), vals, None, ident
    if kind == "varlist":
        return (columns.VarBytesListColumn(), dict((k, [bytes.fromhex(x) for x in v]) for k, v in vals.items()), [], list)
    if kind == "fixedlist":
        return (columns.FixedBytesListColumn(spec["len"]),
                dict((k, [bytes.fromhex(x) for x in v]) for k, v in vals.items()), [], list)
    raise ValueError(kind)


def run_column(spec, out):
    col, vals, default, cmp = materialize(spec)
    n = spec["doccount"]
    written = vals
    if spec["kind"] == "refbytes":
        # documented limit of RefBytesColumn: 65535 unique values per segment; further unique values are converted to
        # the default value (with a warning)
        seen = {default: 0}
        vals = {}
        for dn in sorted(written):
            v = written[dn]
            if v not in seen:
                seen[v] = len(seen)
            vals[dn] = v if seen[v] <= 65535 else default
        if len(seen) > 65536:
            out.label("refbytes_over_documented_unique_limit")
    with tempdir() as d:
        if spec["store"] == "ram":
            stg = RamStorage()
        else:
            stg = FileStorage(d, supports_mmap=(spec["store"] == "file"))
        f = stg.create_file("col")
        f.write(b"P" * spec["pad"])
        base = f.tell()
        w = col.writer(f)
        import warnings
        with warnings.catch_warnings():
            warnings.simplefilter("ignore")
            for dn in sorted(written):
                w.add(dn, written[dn])
            w.finish(n)
        length = f.tell() - base
        f.close()
        f = stg.open_file("col")
        r = col.reader(f, base, length, n)
        try:
            if len(r) != n:
                out.fail("c08.column_len:%s" % spec["kind"], [len(r), n])
            for i in range(n):
                exp = vals.get(i, default)
                got = r[i]
                if cmp(got) != cmp(exp):
                    out.fail("c08.column_value:%s" % spec["kind"], {"row": i, "got": repr(got)[:80], "expected": repr(exp)[:80],
                                                                    "supplied": i in vals, "spec": _brief(spec)})
                    break
            try:
                it = list(r)
            except NotImplementedError:
                it = None
            if it is not None:
                exp_all = [cmp(vals.get(i, default)) for i in range(n)]
                if [cmp(x) for x in it] != exp_all:
                    out.fail("c08.column_iter:%s" % spec["kind"], {"spec": _brief(spec), "got": repr(it)[:120]})
        finally:
            f.close()
    nondefault = [i for i in vals if cmp(vals[i]) != cmp(default)]
    out.nontrivial = n >= 3 and len(vals) < n and bool(nondefault)
    out.label("col_" + spec["kind"], spec["store"])
    if spec["kind"] == "refbytes":
        out.label("uniques_%d" % spec["uniques"])
    if spec["kind"] == "varbytes" and sum(len(v) for v in vals.values()) >= 2 ** 15:
        out.label("varbytes_offsets_over_32k")


def _brief(spec):
    return dict((k, v) for k, v in spec.items() if k not in ("values", "picks", "gaps"))


# ---------------------------------------------------------------------------------------------------- index layer

text_s = st.one_of(st.text(max_size=8), st.text(alphabet="ab\U0001f600é中 ", max_size=6))
BASE = datetime.datetime(1999, 12, 31, 23, 59, 59, 999999)


def doc_s():
    return st.fixed_dictionaries({}, optional={
        "sid": text_s.filter(lambda s: s.strip() != "" or s == ""),
        "title": text_s,
        "i8": st.one_of(st.integers(-128, 127), st.sampled_from([-128, 127, 0])),
        "u16": st.one_of(st.integers(0, 65535), st.sampled_from([0, 65535])),
        "i64": st.one_of(st.integers(-2 ** 63, 2 ** 63 - 1), st.sampled_from([-2 ** 63, 2 ** 63 - 1])),
        "fl": st.one_of(st.floats(allow_nan=False), st.sampled_from([0.0, -0.0, 5e-324, float("inf"), float("-inf")])).map(repr),
        "dec": st.one_of(st.integers(-10 ** 7, 10 ** 7), st.sampled_from([5, -5, 1, 0])),
        "dt": st.one_of(st.integers(0, 10 ** 15), st.sampled_from([0, 1])),
        "flag": st.booleans(),
        "obj": st.recursive(st.one_of(st.none(), st.booleans(), st.integers(), st.text(max_size=5), st.binary(max_size=5).map(_hex)),
                            lambda ch: st.one_of(st.lists(ch, max_size=3), st.dictionaries(st.text(max_size=3), ch, max_size=3)),
                            max_leaves=4),
        "title_override": text_s,
    })


def index_strategy(tier):
    return st.fixed_dictionaries({
        "docs": st.lists(doc_s(), min_size=1, max_size=12),
        "cuts": st.lists(st.integers(1, 11), max_size=2),
        "merge": st.sampled_from(["no", "no", "default", "opt"]),
        "compound": st.booleans(),
        "store": st.sampled_from(["ram", "file", "file_nommap", "copy_to_ram"]),
    })


def schema():
    return fields.Schema(
        key=fields.ID(stored=True),
        sid=fields.ID(stored=True, sortable=True),
        title=fields.TEXT(stored=True, sortable=True),
        i8=fields.NUMERIC(int, bits=8, stored=True, sortable=True),
        u16=fields.NUMERIC(int, bits=16, signed=False, stored=True, sortable=True),
        i64=fields.NUMERIC(int, bits=64, stored=True, sortable=True),
        fl=fields.NUMERIC(float, stored=True, sortable=True),
        dec=fields.NUMERIC(int, bits=64, decimal_places=3, stored=True, sortable=True),
        dt=fields.DATETIME(stored=True, sortable=True),
        flag=fields.BOOLEAN(stored=True),
        obj=fields.STORED,
    )


def doc_values(i, d):
    """(add_document kwargs, expected stored dict, expected column values)"""
    kw = {"key": "k%d" % i}
    stored = {"key": "k%d" % i}
    cols = {}
    for f, v in d.items():
        if f == "title_override" or v is None:
            continue  # (a None value means "not supplied")
        if f == "fl":
            v = float(v)
        elif f == "dec":
            v = Decimal(v).scaleb(-3)
        elif f == "dt":
            v = datetime.datetime(1, 1, 1) + datetime.timedelta(microseconds=(v * 63113) % 315537897599999999)
        elif f == "obj":
            pass
        kw[f] = v
        stored[f] = v
        if f in ("sid", "title", "i8", "u16", "i64", "fl", "dec", "dt"):
            cols[f] = v
    if "title_override" in d and "title" in d:
        # documented: "a custom value for stored field/column"
        kw["_stored_title"] = d["title_override"]
        stored["title"] = d["title_override"]
        cols["title"] = d["title_override"]
    return kw, stored, cols


def same(a, b):
    if isinstance(a, float) and isinstance(b, float):
        return struct.pack("<d", a) == struct.pack("<d", b)
    return a == b and type(a) is type(b) or (a == b and isinstance(a, (int, Decimal)) and isinstance(b, (int, Decimal)))


def run_index(case, out):
    docs = case["docs"]
    n = len(docs)
    cuts = sorted(set(c for c in case["cuts"] if 0 < c < n))
    parts = []
    prev = 0
    for c in cuts + [n]:
        parts.append((prev, c))
        prev = c
    with tempdir() as d:
        kind = case["store"]
        if kind == "ram":
            stg = RamStorage()
        else:
            stg = FileStorage(d, supports_mmap=(kind != "file_nommap"))
        ix = stg.create_index(schema())
        expected = {}
        for pi, (lo, hi) in enumerate(parts):
            w = ix.writer(compound=case["compound"]) if not case["compound"] else ix.writer()
            for i in range(lo, hi):
                kw, stored, cols = doc_values(i, docs[i])
                w.add_document(**kw)
                expected["k%d" % i] = (stored, cols)
            last = pi == len(parts) - 1
            if case["merge"] == "no":
                w.commit(merge=False)
            elif case["merge"] == "opt" and last:
                w.commit(optimize=True)
            else:
                w.commit()
        if kind == "copy_to_ram":
            ix.close()
            ix = copy_to_ram(stg).open_index()
        with ix.searcher() as s:
            r = s.reader()
            nseg = len(r.leaf_readers())
            if r.doc_count() != n:
                out.fail("c08.doc_count", [r.doc_count(), n])
            seen = set()
            creaders = dict((f, r.column_reader(f)) for f in ("sid", "title", "i8", "u16", "i64", "fl", "dec", "dt")
                            if r.has_column(f))
            hits = dict((h["key"], h) for h in s.search(query.Every(), limit=None))
            for dn in r.all_doc_ids():
                sf = r.stored_fields(dn)
                k = sf["key"]
                seen.add(k)
                stored, cols = expected[k]
                if set(sf) != set(stored):
                    out.fail("c08.stored_field_set", {"doc": k, "got": sorted(sf), "expected": sorted(stored)})
                    return
                for f, v in stored.items():
                    if not same(sf[f], v):
                        out.fail("c08.stored_value:%s" % f, {"doc": k, "got": repr(sf[f])[:80], "expected": repr(v)[:80],
                                                             "layout": [case["merge"], case["compound"], kind]})
                        return
                    if not same(hits[k][f], v):
                        out.fail("c08.hit_value:%s" % f, {"doc": k, "got": repr(hits[k][f])[:80], "expected": repr(v)[:80]})
                        return
                for f, cr in creaders.items():
                    got = cr[dn]
                    if f in cols:
                        exp = cols[f]
                        if f == "title":
                            # the sortable TEXT column holds the supplied text (not the _stored_ override)
                            exp = cols[f]
                        if not same(got, exp):
                            out.fail("c08.column_value:%s" % f, {"doc": k, "got": repr(got)[:80], "expected": repr(exp)[:80],
                                                                 "layout": [case["merge"], case["compound"], kind, nseg]})
                            return
                    else:
                        default = r.schema[f].column_type.default_value()
                        dv = r.schema[f].from_column_value(default) if hasattr(r.schema[f], "from_column_value") else default
                        if not (same(got, dv) or (isinstance(got, float) and got != got)):
                            out.fail("c08.column_default:%s" % f, {"doc": k, "got": repr(got)[:80], "expected": repr(dv)[:80]})
                            return
            if seen != set(expected):
                out.fail("c08.documents_lost_or_invented", [sorted(seen ^ set(expected))[:6]])
            all_sf = sorted(sf["key"] for sf in r.all_stored_fields())
            if all_sf != sorted(expected):
                out.fail("c08.all_stored_fields", [all_sf[:6]])
        ix.close()
    out.nontrivial = len(parts) >= 2 or case["merge"] in ("default", "opt")
    out.label("store_" + kind, "merge_" + case["merge"], "compound" if case["compound"] else "loose")


def run_compressedblock(case, out):
    """CompressedBlockColumn ("experimental", used by nothing in whoosh): recorded finding, kept out of the
    generated column types so that the other types are still explored."""
    col = columns.CompressedBlockColumn(3, 1)
    stg = RamStorage()
    f = stg.create_file("c")
    f.write(b"P" * case["pad"])
    base = f.tell()
    w = col.writer(f)
    vals = dict((int(k), bytes.fromhex(v)) for k, v in case["values"])
    for dn in sorted(vals):
        w.add(dn, vals[dn])
    w.finish(case["doccount"])
    length = f.tell() - base
    f.close()
    try:
        r = col.reader(stg.open_file("c"), base, length, case["doccount"])
        got = [r[i] for i in range(case["doccount"])]
        it = list(r)
        exp = [vals.get(i, b"") for i in range(case["doccount"])]
        if got != exp or it != exp:
            out.fail("c08.known:compressedblock_column", {"got": repr(got)[:80], "iter": repr(it)[:80], "expected": repr(exp)[:80]})
    except Exception as e:
        out.fail("c08.known:compressedblock_column", {"err": repr(e)[:200]})
    out.nontrivial = True


# ------------------------------------------------------------------------------------- rejected document / bulk

def rejected_strategy(tier):
    return st.fixed_dictionaries({
        "before": st.integers(0, 3),
        "bad": st.fixed_dictionaries({"title": st.booleans(), "sid": st.booleans(), "obj": st.booleans(),
                                      "i8": st.booleans(), "fail_field": st.sampled_from(["u16", "i8"])}),
        "next": st.fixed_dictionaries({"title": st.booleans(), "sid": st.booleans(), "obj": st.booleans()}),
        "after": st.integers(0, 2),
    })


def run_rejected(case, out):
    """add_document() raising half-way must not leak anything into the following documents"""
    ix = RamStorage().create_index(schema())
    w = ix.writer()
    n = 0
    for _ in range(case["before"]):
        w.add_document(key="k%d" % n, title="plain text", sid="s%d" % n)
        n += 1
    bad = {"key": "bad"}
    if case["bad"]["title"]:
        bad["title"] = "leaked words"
    if case["bad"]["sid"]:
        bad["sid"] = "leaksid"
    if case["bad"]["obj"]:
        bad["obj"] = "LEAK"
    if case["bad"]["i8"] and case["bad"]["fail_field"] != "i8":
        bad["i8"] = 5
    bad[case["bad"]["fail_field"]] = 70000  # out of range for both -> ValueError
    try:
        w.add_document(**bad)
        out.fail("c08.invalid_value_accepted", bad)
        w.cancel()
        return
    except ValueError:
        pass
    nxt = {"key": "next"}
    if case["next"]["title"]:
        nxt["title"] = "fine"
    if case["next"]["sid"]:
        nxt["sid"] = "nextsid"
    if case["next"]["obj"]:
        nxt["obj"] = "ok"
    w.add_document(**nxt)
    for _ in range(case["after"]):
        w.add_document(key="k%d" % n, title="plain text")
        n += 1
    w.commit()
    with ix.searcher() as s:
        r = s.reader()
        dn = s.document_number(key="next")
        sf = r.stored_fields(dn)
        if sf != nxt:
            out.fail("c08.rejected_doc_leaks:stored_fields", {"got": sf, "expected": nxt})
        if r.doc_count() != case["before"] + 1 + case["after"]:
            out.fail("c08.rejected_doc_leaks:doc_count", [r.doc_count()])
        leaks = []
        for f, term in (("key", "bad"), ("title", "leaked"), ("sid", "leaksid")):
            if [h["key"] for h in s.search(query.Term(f, term), limit=None)]:
                leaks.append("%s:%s" % (f, term))
        if leaks:
            # recorded finding: postings already handed to the pool are not withdrawn
            out.fail("c08.known:rejected_doc_leaks_postings", {"terms": leaks, "bad": bad, "next": nxt})
        for f in ("title", "sid"):
            if r.has_column(f):
                got = r.column_reader(f)[dn]
                exp = nxt.get(f, "")
                if got != exp:
                    out.fail("c08.known:rejected_doc_leaks_column", {"field": f, "got": got, "expected": exp})
        exp_len = 1 if "title" in nxt else 0
        if r.doc_field_length(dn, "title") != exp_len:
            out.fail("c08.known:rejected_doc_leaks_field_length", {"got": r.doc_field_length(dn, "title"), "expected": exp_len})
    out.nontrivial = any(case["bad"][k] for k in ("title", "sid", "obj"))


def _blob(seed, n):
    import hashlib
    out = []
    h = str(seed).encode()
    while sum(len(x) for x in out) < n:
        h = hashlib.sha256(h).digest()
        out.append(h.hex())
    return "".join(out)[:n]


def bulk_strategy(tier):
    return st.fixed_dictionaries({
        "sizes": st.lists(st.one_of(st.integers(0, 3000), st.integers(20000, 40000), st.integers(0, 50)),
                          min_size=10, max_size=40),
        "compound": st.booleans(),
        "store": st.sampled_from(["ram", "file", "file_nommap"]),
    })


def run_bulk(case, out):
    """one segment whose per-document column streams exceed the compound writer's 32 KiB spill buffer several times"""
    with tempdir() as d:
        stg = RamStorage() if case["store"] == "ram" else FileStorage(d, supports_mmap=(case["store"] == "file"))
        sch = fields.Schema(key=fields.ID(stored=True), body=fields.STORED, tag=fields.ID(sortable=True))
        ix = stg.create_index(sch)
        w = ix.writer() if case["compound"] else ix.writer(compound=False)
        exp = {}
        for i, n in enumerate(case["sizes"]):
            body = _blob(i, n)
            tag = _blob(i + 1000, n // 7)
            w.add_document(key="k%d" % i, body=body, tag=tag)
            exp["k%d" % i] = (body, tag)
        w.commit()
        with ix.reader() as r:
            cr = r.column_reader("tag")
            for dn in r.all_doc_ids():
                sf = r.stored_fields(dn)
                if sf.get("key") not in exp:
                    out.fail("c08.bulk_stored_value", {"docnum": dn, "stored_fields_keys": sorted(sf)[:5], "key": repr(sf.get("key"))[:60]})
                    break
                body, tag = exp[sf["key"]]
                if sf.get("body") != body:
                    out.fail("c08.bulk_stored_value", {"doc": sf["key"], "len_got": len(sf.get("body") or ""), "len_expected": len(body)})
                    break
                if cr[dn] != tag:
                    out.fail("c08.bulk_column_value", {"doc": sf["key"], "len_got": len(cr[dn]), "len_expected": len(tag)})
                    break
        ix.close()
    out.nontrivial = sum(case["sizes"]) > 70000
    out.label("total_over_64k" if sum(case["sizes"]) > 65536 else "small")


SUBS = {
    "rejected": Sub(run_rejected, rejected_strategy, quick=40, thorough=300, quick_shards=2),
    "bulk": Sub(run_bulk, bulk_strategy, quick=15, thorough=200, quick_shards=8),
    "compressedblock": Sub(run_compressedblock, lambda tier: st.fixed_dictionaries({
        "pad": st.just(0), "doccount": st.integers(1, 3),
        "values": st.just([[0, "61"]])}), quick=3, thorough=3, quick_shards=1),
    "column": Sub(run_column, lambda tier: column_case(tier), quick=400, thorough=4000, quick_shards=8),
    "index": Sub(run_index, index_strategy, quick=60, thorough=1200, quick_shards=8),
}
