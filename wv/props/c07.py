"""C07 - deletes, updates and cancel have exact, durable semantics (model-based history check)."""
from hypothesis import strategies as st

from whoosh import query as wq
from whoosh import sorting

from wv.runner import Sub
from wv.util import tempdir
from wv import corpus, gen
from wv.dump import dump, diff
from wv.refquery import ref_eval, to_whoosh

PROP = "C07"
LEVEL = "exploration"
RULE = ("Each case = a generated history of 2-7 writer transactions over a fresh directory or RAM index: adds, "
        "update_document by unique key (ID only, or ID + unique NUMERIC), delete_by_term, delete_by_query (generated "
        "query trees), delete_document(docnum), ended by commit(merge=False|default|optimize) or cancel(); codec "
        "block limit 1/2/3/128. After every transaction the real index is compared with a dictionary model through "
        "doc_count, stored-field iteration, Every/Not/Term searches (scored, unscored, sorted, grouped), raw posting "
        "lists, vectors, and the return values of delete_by_*; after cancel() the full logical dump must equal the "
        "dump before the writer. Non-trivial = history with a delete/update of a document living in an older segment "
        "followed by a merging commit, or a cancel after deletes; distinct by SHA-1 of the operation-kind skeleton. "
        "schema: the same kind of history where each transaction may run inside a `with` block (commit on exit, an "
        "exception inside the block instead of cancel()) and may start with add_field / remove_field; after every "
        "transaction the model comparison above, the schema's field names (unchanged after a cancelled or failed "
        "block, durable after reopen), searches on the added field and an immediate new writer (lock released) are "
        "checked. Non-trivial = a committed or cancelled transaction with a schema change or a with-block.")
ASSUMPTIONS = [
    "key discipline of the statement: each key is written at most once per writer (enforced by construction)",
    "delete queries come from the unambiguous part of the query grammar (no FuzzyTerm)",
]

VOC = ["a", "b", "ab", "abc", "ba"]


def simple_query_s():
    t = st.builds(lambda x: {"op": "term", "f": "t", "x": x, "boost": 1.0}, st.sampled_from(VOC))
    leaf = st.one_of(
        t, t,
        st.builds(lambda x: {"op": "prefix", "f": "t", "x": x}, st.sampled_from(["a", "ab", "b"])),
        st.builds(lambda s, e: {"op": "nrange", "f": "n", "start": s, "end": e, "se": False, "ee": False},
                  st.one_of(st.none(), st.integers(-5, 5)), st.one_of(st.none(), st.integers(-5, 5))),
        st.builds(lambda ws: {"op": "phrase", "f": "t", "words": ws, "slop": 1}, st.lists(st.sampled_from(VOC), min_size=2, max_size=2)),
        st.just({"op": "every", "f": None}),
    )
    return st.one_of(
        leaf, leaf,
        st.builds(lambda a, b: {"op": "and", "qs": [a, b], "boost": 1.0}, leaf, leaf),
        st.builds(lambda a, b: {"op": "or", "qs": [a, b], "boost": 1.0}, leaf, leaf),
        st.builds(lambda a, b: {"op": "andnot", "a": a, "b": b}, leaf, leaf),
        st.builds(lambda a: {"op": "not", "q": a}, leaf),
    )


def strategy(tier):
    schema = st.fixed_dictionaries({"n_unique": st.booleans(), "t_vector": st.booleans(),
                                    "g_sortable": st.booleans()})
    base = st.fixed_dictionaries({
        "hist": gen.history_s(max_txs=7, min_txs=2, max_docs=6, allow_cancel=True, del_queries=simple_query_s(),
                              schema_s=schema),
        "store": st.sampled_from(["ram", "file", "file_nommap"]),
    })

    def wipe(case, at, on):
        # "delete everything and optimize" somewhere in the history: the index is left with a segment that holds no
        # document, and the transactions after it add, update and delete next to that segment
        if not on:
            return case
        txs = list(case["hist"]["txs"])
        at = at % len(txs)
        tx = {"ops": [["delq", {"op": "every", "f": None}]], "end": "commit", "merge": True, "optimize": True,
              "blocklimit": txs[at].get("blocklimit")}
        later = [dict(t, merge=False, optimize=False) if t.get("end") == "commit" else t for t in txs[at:]]
        return dict(case, hist=dict(case["hist"], txs=txs[:at] + [tx] + later))
    return st.builds(wipe, base, st.integers(0, 6), st.sampled_from([False, False, True]))


def _keys(s, docnums):
    return sorted(s.stored_fields(dn)["k"] for dn in docnums)


def verify(ix, model, out, tag):
    docs = model.live()
    want = sorted(model.docs)
    if ix.doc_count() != len(want):
        out.fail("c07.doc_count", [tag, ix.doc_count(), len(want)])
    if ix.doc_count_all() < ix.doc_count():
        out.fail("c07.doc_count_all_lt_doc_count", tag)
    s = ix.searcher()
    try:
        r = s.reader()
        got = sorted(sf["k"] for sf in s.reader().all_stored_fields())
        if got != want:
            out.fail("c07.all_stored_fields", [tag, got, want])
        got = sorted(sf["k"] for _, sf in r.iter_docs())
        if got != want:
            out.fail("c07.iter_docs", [tag, got, want])
        got = _keys(s, r.all_doc_ids())
        if got != want:
            out.fail("c07.all_doc_ids", [tag, got, want])
        got = _keys(s, [h.docnum for h in s.search(wq.Every(), limit=None)])
        if got != want:
            out.fail("c07.every", [tag, got, want])
        for word in VOC:
            exp = sorted(d["k"] for d in docs if word in (d.get("t") or []))
            q = wq.Term("t", word)
            for name, res in (("scored", s.search(q, limit=None)), ("unscored", s.search(q, limit=None, scored=False)),
                              ("sorted", s.search(q, limit=None, sortedby="k")),
                              ("limit1", s.search(q, limit=1))):
                got = _keys(s, res.docs())
                if got != exp:
                    out.fail("c07.term_search:" + name, [tag, word, got, exp])
            if ("t", word.encode("utf8")) in r:
                got = _keys(s, r.postings("t", word.encode("utf8")).all_ids())
            else:
                got = []
            if got != exp:
                out.fail("c07.postings", [tag, word, got, exp])
            nexp = sorted(set(want) - set(exp))
            got = _keys(s, [h.docnum for h in s.search(wq.Not(q), limit=None)])
            if got != nexp:
                out.fail("c07.not_term", [tag, word, got, nexp])
        # conjunctions and phrases step their clauses with skip_to(): a deleted document must stay invisible there too
        for w1, w2 in (("a", "b"), ("ab", "a"), ("b", "ba"), ("abc", "ab")):
            exp = sorted(d["k"] for d in docs if w1 in (d.get("t") or []) and w2 in (d.get("t") or []))
            q = wq.And([wq.Term("t", w1), wq.Term("t", w2)])
            for name, res in (("scored", s.search(q, limit=None)), ("limit2", s.search(q, limit=2)),
                              ("require", s.search(wq.Require(wq.Term("t", w1), wq.Term("t", w2)), limit=None))):
                got = _keys(s, res.docs())
                if got != exp:
                    out.fail("c07.and_search:" + name, [tag, w1, w2, got, exp])
            toks = lambda d: d.get("t") or []
            exp = sorted(d["k"] for d in docs if any(toks(d)[i] == w1 and toks(d)[i + 1] == w2 for i in range(len(toks(d)) - 1)))
            got = _keys(s, s.search(wq.Phrase("t", [w1, w2]), limit=None).docs())
            if got != exp:
                out.fail("c07.phrase_search", [tag, w1, w2, got, exp])
        # negation of a compound (its matcher is rebuilt while the collector runs): deleted documents stay out
        for w1, w2 in (("a", "zzz"), ("abc", "ba")):
            nexp = sorted(d["k"] for d in docs if w1 not in (d.get("t") or []) and w2 not in (d.get("t") or []))
            nq = wq.Not(wq.Or([wq.Term("t", w1), wq.Term("t", w2)]))
            for name, res in (("all", s.search(nq, limit=None)), ("limit", s.search(nq, limit=max(1, len(nexp))))):
                got = _keys(s, res.docs())
                if got != nexp:
                    out.fail("c07.not_compound:" + name, [tag, w1, w2, got, nexp])
        got = _keys(s, s.docs_for_query(wq.Every("t")))
        exp = sorted(d["k"] for d in docs if d.get("t"))
        if got != exp:
            out.fail("c07.every_field", [tag, got, exp])
        # grouping by g
        res = s.search(wq.Every(), limit=None, groupedby="g")
        groups = res.groups("g")
        flat = sorted(k for dns in groups.values() for k in _keys(s, dns))
        if flat != want:
            out.fail("c07.groups_partition", [tag, flat, want])
        for gval, dns in groups.items():
            # missing values are grouped under None (posting-based) or the column default ''
            exp = sorted(d["k"] for d in docs if (d.get("g") or "") == (gval or ""))
            if _keys(s, dns) != exp:
                out.fail("c07.group_members", [tag, gval, _keys(s, dns), exp])
        # sorting by the numeric column covers every live doc exactly once
        got = _keys(s, [h.docnum for h in s.search(wq.Every(), limit=None, sortedby="n")])
        if got != want:
            out.fail("c07.sorted_by_column", [tag, got, want])
        # vectors of live docs
        if ix.schema["t"].vector:
            for dn in r.all_doc_ids():
                k = s.stored_fields(dn)["k"]
                toks = model.docs[k].get("t") or [] if k in model.docs else None
                if toks is None:
                    continue
                exp = sorted(set(toks))
                got = sorted(t for t, _ in r.vector_as("frequency", dn, "t")) if r.has_vector(dn, "t") else []
                if got != exp:
                    out.fail("c07.vector", [tag, k, got, exp])
        # unique key: one live document per key
        for k in want:
            n = len(list(s.documents(k=k)))
            if n != 1:
                out.fail("c07.one_doc_per_key", [tag, k, n])
    finally:
        s.close()


def discipline(hist):
    """With two unique fields the statement's key discipline applies to both: the index is maintained through
    update_document only, and no unique value (k or n) is written twice by one writer."""
    if not (hist.get("schema") or {}).get("n_unique"):
        return hist
    import copy
    hist = copy.deepcopy(hist)
    for tx in hist["txs"]:
        seen = set()
        for op in tx["ops"]:
            if op[0] in ("add", "upd"):
                op[0] = "upd"
                n = op[1].get("n")
                if n is not None:
                    if n in seen:
                        op[1]["n"] = None
                    seen.add(n)
    return hist


def run(case, out):
    hist = discipline(case["hist"])
    with tempdir() as d:
        schema = corpus.build_schema(hist.get("schema"))
        ix = corpus.create_index(case["store"], d, schema)
        model = corpus.Model()
        model.unique_n = bool((hist.get("schema") or {}).get("n_unique"))
        skeleton = []
        nt = False
        older_touched = False
        for i, tx in enumerate(hist["txs"]):
            before = dump(ix) if tx.get("end") == "cancel" else None
            res = []
            nseg_before = len(ix._segments()) if hasattr(ix, "_segments") else 1
            committed = corpus.apply_tx(ix, model, tx, ref_eval, to_whoosh, results=res)
            kinds = [op[0] for op in tx["ops"]]
            skeleton.append([kinds, tx.get("end"), tx.get("merge"), tx.get("optimize")])
            for r in res:
                if r[0] == "deln_missing":
                    out.fail("c07.document_number_missing", r)
                elif r[2] != r[3]:
                    out.fail("c07.delete_return_value:" + r[0], {"op": r[1], "returned": r[2], "expected": r[3], "tx": i})
            if not committed:
                after = dump(ix)
                if after != before:
                    out.fail("c07.cancel_changed_index", diff(before, after))
                if any(k in ("delk", "delt", "delq", "deln", "upd") for k in kinds):
                    nt = True
                    out.label("cancel_after_deletes")
            else:
                if any(k in ("delk", "delt", "delq", "deln", "upd") for k in kinds) and nseg_before >= 1 and i >= 1:
                    older_touched = True
                if older_touched and tx.get("merge") and i >= 2:
                    nt = True
                    out.label("delete_then_merge")
            verify(ix, model, out, "tx%d" % i)
            if out.violations:
                break
        # reopen from storage: durability
        if case["store"] != "ram" and not out.violations:
            from whoosh import index as windex
            ix2 = windex.open_dir(d)
            verify(ix2, model, out, "reopen")
            ix2.close()
        ix.close()
        out.nontrivial = nt
        out.key = skeleton
        if model.unique_n:
            out.label("two_unique_fields")
        out.label(case["store"])


# ---------------------------------------------------------------------------------------------------------
# with-blocks (commit on exit, cancel on exception) and schema changes inside a history

def strategy_schema(tier):
    extra = st.fixed_dictionaries({"via": st.sampled_from(["plain", "with", "with"]),
                                   "schema_op": st.sampled_from([None, None, "add_x", "remove_w", "remove_x"]),
                                   # a second schema change made by the same writer
                                   "second_op": st.sampled_from([None, None, "add_y", "remove_w", "remove_d"]),
                                   "base_exc": st.booleans()})
    return st.fixed_dictionaries({
        "hist": gen.history_s(max_txs=6, min_txs=2, max_docs=5, allow_cancel=True,
                              schema_s=st.fixed_dictionaries({"t_vector": st.booleans(), "g_sortable": st.booleans()})),
        "extras": st.lists(extra, min_size=6, max_size=6),
        "store": st.sampled_from(["ram", "file"]),
    })


class _Left(Exception):
    pass


class _LeftBase(BaseException):
    """what KeyboardInterrupt, SystemExit and GeneratorExit are: not an Exception, but it leaves the block all the same"""


class ProxyWriter(object):
    """Delegates to a real writer; ends the transaction the way a `with ix.writer() as w:` block does when asked to."""

    def __init__(self, real, via, with_x, base_exc=False):
        self._real, self._via, self._with_x, self._base_exc = real, via, with_x, base_exc
        self.added_with_x = []

    def __getattr__(self, name):
        return getattr(self._real, name)

    def _kw(self, kw):
        if self._with_x:
            kw = dict(kw)
            kw["x"] = u"extra"
            self.added_with_x.append(kw["k"])
        return kw

    def add_document(self, **kw):
        return self._real.add_document(**self._kw(kw))

    def update_document(self, **kw):
        return self._real.update_document(**self._kw(kw))

    def commit(self, **kw):
        if self._via != "with":
            return self._real.commit(**kw)
        # inside a with-block the options are attributes of the writer
        if kw.get("optimize"):
            self._real.optimize = True
        if kw.get("merge") is False:
            self._real.merge = False
        self._real.__enter__()
        return self._real.__exit__(None, None, None)

    def cancel(self):
        if self._via != "with":
            return self._real.cancel()
        cls = _LeftBase if self._base_exc else _Left
        e = cls("exception inside the with-block")
        return self._real.__exit__(cls, e, None)


def run_schema(case, out):
    from whoosh import fields as wfields
    hist = case["hist"]
    with tempdir() as d:
        schema = corpus.build_schema(hist.get("schema"))
        ix = corpus.create_index(case["store"], d, schema)
        model = corpus.Model()
        xdocs = set()
        has_x = False
        has_w = True
        has_y = False
        has_d = True
        x_was_removed = False
        nt = False
        skeleton = []
        for i, tx in enumerate(hist["txs"]):
            ex = case["extras"][i % len(case["extras"])]
            names_before = sorted(ix.schema.names())
            before = dump(ix) if tx.get("end") == "cancel" else None
            w = ix.writer(**corpus.writer_kwargs(tx))
            op = ex["schema_op"]
            new_x, new_w = has_x, has_w
            removing_x = False
            if op == "add_x" and not has_x and not x_was_removed:
                # (re-adding a removed field name is documented to possibly bring back the old field's data from
                # segments that were not rewritten yet: not generated)
                w.add_field("x", wfields.KEYWORD(stored=True))
                new_x = True
            elif op == "remove_x" and has_x:
                w.remove_field("x")
                new_x = False
                removing_x = True
            elif op == "remove_w" and has_w:
                w.remove_field("w")
                new_w = False
            else:
                op = None
            op2 = ex.get("second_op")
            new_y, new_d = has_y, has_d
            if op2 == "add_y" and not has_y:
                w.add_field("y", wfields.ID(stored=True))
                new_y = True
            elif op2 == "remove_w" and new_w:
                w.remove_field("w")
                new_w = False
            elif op2 == "remove_d" and has_d:
                w.remove_field("d")
                new_d = False
            else:
                op2 = None
            if op and op2:
                out.label("two_schema_changes_in_one_writer")
            tx2 = dict(tx)
            if not new_w or not new_d:
                tx2["ops"] = [[o[0], dict(o[1], w=(o[1].get("w") if new_w else []), d=(o[1].get("d") if new_d else None))]
                              if o[0] in ("add", "upd") else o for o in tx["ops"]]
            pw = ProxyWriter(w, ex["via"], new_x, base_exc=ex.get("base_exc", False))
            committed = corpus.apply_tx(ix, model, tx2, ref_eval, to_whoosh, writer=pw)
            skeleton.append([[o[0] for o in tx["ops"]], tx.get("end"), ex["via"], op])
            if committed:
                x_was_removed = x_was_removed or removing_x
                has_x, has_w = new_x, new_w
                has_y, has_d = new_y, new_d
                xdocs = (xdocs | set(pw.added_with_x)) if has_x else set()
            else:
                after = dump(ix)
                if after != before:
                    out.fail("c07.cancel_changed_index:%s" % ex["via"], diff(before, after))
                if sorted(ix.schema.names()) != names_before:
                    out.fail("c07.cancel_changed_schema:%s" % ex["via"], [names_before, sorted(ix.schema.names())])
                if ex["via"] == "with" or op or op2:
                    nt = True
            names_now = ix.schema.names()
            if [("x" in names_now), ("w" in names_now), ("y" in names_now), ("d" in names_now)] != [has_x, has_w, has_y, has_d]:
                out.fail("c07.schema_after_transaction", {"tx": i, "names": sorted(names_now),
                                                          "expected_xwyd": [has_x, has_w, has_y, has_d]})
            verify(ix, model, out, "tx%d" % i)
            if has_x:
                s = ix.searcher()
                try:
                    got = _keys(s, s.docs_for_query(wq.Term("x", u"extra")))
                    exp = sorted(k for k in xdocs if k in model.docs)
                    if got != exp:
                        out.fail("c07.added_field_search", {"tx": i, "got": got, "expected": exp})
                finally:
                    s.close()
            if committed and (op or ex["via"] == "with"):
                nt = True
            # writers never dead-lock the index
            try:
                w2 = ix.writer(timeout=0)
                w2.cancel()
            except Exception as e:
                out.fail("c07.index_left_locked:%s" % type(e).__name__, {"tx": i, "via": ex["via"], "end": tx.get("end")})
                break
            if out.violations:
                break
        if case["store"] != "ram" and not out.violations:
            from whoosh import index as windex
            ix2 = windex.open_dir(d)
            n2 = ix2.schema.names()
            if [("x" in n2), ("w" in n2), ("y" in n2), ("d" in n2)] != [has_x, has_w, has_y, has_d]:
                out.fail("c07.schema_after_reopen", sorted(ix2.schema.names()))
            verify(ix2, model, out, "reopen")
            ix2.close()
        ix.close()
    out.nontrivial = nt
    out.key = skeleton
    out.label(case["store"])


SUBS = {
    "history": Sub(run, strategy, quick=120, thorough=800, quick_shards=8),
    "schema": Sub(run_schema, strategy_schema, quick=60, thorough=500, quick_shards=8),
}
