"""C13 - numeric and date fields order and range-match exactly."""
import math
import struct
import datetime
from decimal import Decimal

from hypothesis import strategies as st

from whoosh import fields, query
from whoosh.filedb.filestore import RamStorage
from whoosh.util.numeric import to_sortable, from_sortable, tiered_ranges
from whoosh.util.times import datetime_to_long, long_to_datetime

from wv.runner import Sub

PROP = "C13"
LEVEL = "exploration"
RULE = ("(1) tiers8 - exhaustive enumeration of the 8-bit domain: for signed and unsigned fields, every shift_step "
        "0..8, every pair start<=end of the 256 values plus open ends, and the four bracket combinations, the union of "
        "the value sets covered by tiered_ranges (value v is indexed at tier s as v>>s for s in range(0, bits, step)) "
        "must equal exactly the requested interval and only indexed tiers may be used; to_sortable must be a strictly "
        "monotone bijection onto 0..255. (2) codec - generated values with boundary bias for 16/32/64-bit ints, floats "
        "(+-0.0, denormals, +-max, +-inf, adjacent doubles), Decimals and microsecond datetimes: from_bytes(to_bytes(x)) "
        "== x, byte order == numeric order, sortable round trip, tier coverage by membership of sampled values and "
        "interval end points +-1. (3) index - generated field configurations and value multisets (always including the "
        "domain extremes) are indexed; NumericRange / DateRange for generated (start, end, startexcl, endexcl) incl. "
        "None must return exactly the documents whose value lies in the interval, sortedby must order by value, and "
        "out-of-domain values must be rejected at add_document and at query time. (4) partialdates - enumeration of "
        "every typed date precision YYYY[MM[DD[hh[mm[ss]]]]] over leap, non-leap and century years, all months, the "
        "days on which month lengths differ and the first/last hour, minute, second: DATETIME.parse_query / parse_range "
        "(what the query parser calls) must match exactly the documents dated at the first and last microsecond of "
        "the period and not the ones one microsecond outside. Non-trivial: tiers8 = interval with "
        ">=2 tiers used; codec = >=2 distinct values; index = a range with a non-empty, non-total result on a field with "
        "shift_step>0. Distinct by SHA-1 of the case.")
ASSUMPTIONS = [
    "NaN is not generated (it has no place in an order)",
    "the tier scheme 'value v is indexed as (shift, v >> shift) for shift in range(0, bits, shift_step)' is read off "
    "NUMERIC.index() and treated as the specification of which tiers exist",
]
EXHAUSTIVE = {
    "quick": "8-bit signed+unsigned domain: all (start<=end | open) x 4 bracket combinations for shift_step in {0,3,4,8}",
    "thorough": "8-bit signed+unsigned domain: all (start<=end | open) x 4 bracket combinations for shift_step 0..8",
}

# ---------------------------------------------------------------------------------------------------- tiers8


def tiers8_enum(tier, shard, nshards):
    steps = [0, 3, 4, 8] if tier == "quick" else list(range(0, 9))
    jobs = [(signed, step, lo) for signed in (True, False) for step in steps for lo in range(-1, 256)]
    for i, (signed, step, lo) in enumerate(jobs):
        if i % nshards == shard:
            yield {"signed": signed, "step": step, "lo": lo}


def covered_intervals(ranges, bits, step, out, ctx):
    ivs = []
    allowed = set(range(0, bits, step)) if step else {0}
    for s, e, shift in ranges:
        if shift not in allowed:
            out.fail("c13.tier_not_indexed", [ctx, [s, e, shift]])
            return None
        lo = (s >> shift) << shift
        hi = (((e >> shift) + 1) << shift) - 1
        if hi >= lo:
            ivs.append((lo, hi))
    ivs.sort()
    merged = []
    for lo, hi in ivs:
        if merged and lo <= merged[-1][1] + 1:
            merged[-1] = (merged[-1][0], max(merged[-1][1], hi))
        else:
            merged.append((lo, hi))
    return merged


def run_tiers8(case, out):
    signed, step, lo_idx = case["signed"], case["step"], case["lo"]
    bits = 8
    vals = list(range(-128, 128)) if signed else list(range(0, 256))
    # bijection / monotonicity (cheap, repeated per job)
    srt = [to_sortable(int, bits, signed, v) for v in vals]
    if srt != list(range(256)):
        out.fail("c13.to_sortable_not_monotone_bijection", [signed])
    if [from_sortable(int, bits, signed, s) for s in srt] != vals:
        out.fail("c13.from_sortable_roundtrip", [signed])
    start = None if lo_idx < 0 else vals[lo_idx]
    n = 0
    multi = 0
    for hi_idx in list(range(max(lo_idx, 0), 256)) + [None]:
        end = None if hi_idx is None else vals[hi_idx]
        for se in (False, True):
            for ee in (False, True):
                n += 1
                a = 0 if start is None else to_sortable(int, bits, signed, start) + (1 if se else 0)
                b = 255 if end is None else to_sortable(int, bits, signed, end) - (1 if ee else 0)
                ranges = list(tiered_ranges(int, bits, signed, start, end, step, se, ee))
                got = covered_intervals(ranges, bits, step, out, [signed, step, start, end, se, ee])
                if got is None:
                    return
                exp = [(a, b)] if a <= b else []
                if got != exp:
                    out.fail("c13.tier_coverage_wrong",
                             {"signed": signed, "step": step, "start": start, "end": end, "startexcl": se,
                              "endexcl": ee, "covered": got[:6], "expected": exp, "ranges": ranges[:8]})
                    return
                if len(set(r[2] for r in ranges)) >= 2:
                    multi += 1
    out.units = n
    out.nontrivial = multi > 0


# ---------------------------------------------------------------------------------------------------- codec

F64 = struct.Struct(">d")


def _adj(x, d):
    if x in (float("inf"), float("-inf")):
        return x
    return math.nextafter(x, d)


float_s = st.one_of(
    st.floats(allow_nan=False),
    st.sampled_from([0.0, -0.0, 5e-324, -5e-324, 2.2250738585072014e-308, 1.7976931348623157e308,
                     -1.7976931348623157e308, float("inf"), float("-inf"), 1.0, -1.0]),
    st.floats(allow_nan=False, allow_infinity=False).map(lambda x: _adj(x, float("inf"))),
)


def int_s(bits, signed):
    lo, hi = (-(1 << bits - 1), (1 << bits - 1) - 1) if signed else (0, (1 << bits) - 1)
    return st.one_of(st.integers(lo, hi), st.sampled_from([lo, lo + 1, hi, hi - 1, 0, 1] + ([-1] if signed else [])),
                     st.integers(-300, 300).filter(lambda v: lo <= v <= hi))


@st.composite
def codec_case(draw):
    kind = draw(st.sampled_from(["int", "int", "float", "decimal", "datetime"]))
    step = draw(st.sampled_from([0, 1, 2, 3, 4, 5, 6, 7, 8]))
    if kind == "int":
        bits = draw(st.sampled_from([8, 16, 32, 64]))
        signed = draw(st.booleans())
        vals = draw(st.lists(int_s(bits, signed), min_size=2, max_size=12))
        cfg = {"kind": kind, "bits": bits, "signed": signed, "step": step}
    elif kind == "float":
        signed = draw(st.booleans())
        vals = draw(st.lists(float_s if signed else float_s.map(abs), min_size=2, max_size=12))
        cfg = {"kind": kind, "bits": 64, "signed": signed, "step": step}
        vals = [repr(v) for v in vals]
    elif kind == "decimal":
        dp = draw(st.integers(1, 6))
        bits = draw(st.sampled_from([32, 64]))
        lim = ((1 << bits - 1) - 1)
        vals = draw(st.lists(st.one_of(st.integers(-lim, lim), st.integers(-200, 200), st.sampled_from([1, -1, 5, -5, 0])),
                             min_size=2, max_size=12))
        cfg = {"kind": kind, "bits": bits, "signed": True, "step": step, "dp": dp}
    else:
        us = st.one_of(st.integers(0, datetime_to_long(datetime.datetime.max)),
                       st.sampled_from([0, 1, 999999, 1000000, datetime_to_long(datetime.datetime.max)]),
                       st.integers(63000000000000000, 64000000000000000))
        vals = draw(st.lists(us, min_size=2, max_size=12))
        cfg = {"kind": kind, "bits": 64, "signed": False, "step": step}
    cfg["values"] = vals
    cfg["range"] = [draw(st.integers(0, 40)), draw(st.integers(0, 40)), draw(st.booleans()), draw(st.booleans()),
                    draw(st.booleans()), draw(st.booleans())]
    return cfg


def make_field(cfg, **kw):
    k = cfg["kind"]
    if k == "int":
        return fields.NUMERIC(int, bits=cfg["bits"], signed=cfg["signed"], shift_step=cfg["step"], **kw)
    if k == "float":
        return fields.NUMERIC(float, signed=cfg["signed"], shift_step=cfg["step"], **kw)
    if k == "decimal":
        return fields.NUMERIC(int, bits=cfg["bits"], decimal_places=cfg["dp"], shift_step=cfg["step"], **kw)
    return fields.DATETIME(**kw)


def decode_values(cfg):
    k = cfg["kind"]
    if k == "float":
        return [float(v) for v in cfg["values"]]
    if k == "decimal":
        return [Decimal(v).scaleb(-cfg["dp"]) for v in cfg["values"]]
    if k == "datetime":
        return [long_to_datetime(v) for v in cfg["values"]]
    return list(cfg["values"])


def key_of(cfg, v):
    """total order key of a value: for floats the IEEE total order on non-NaN values, i.e. -0.0 sorts directly
    below +0.0 (they are distinct values of the field: both must round-trip, and an order-preserving injection
    has to put them in this order)"""
    if cfg["kind"] == "float":
        return (v, math.copysign(1.0, v))
    return v


def in_interval(cfg, v, start, end, se, ee):
    k = key_of(cfg, v)
    if start is not None:
        ks = key_of(cfg, start)
        if k < ks or (k == ks and se):
            return False
    if end is not None:
        ke = key_of(cfg, end)
        if k > ke or (k == ke and ee):
            return False
    return True


def run_codec(case, out):
    f = make_field(case)
    vals = decode_values(case)
    enc = []
    for v in vals:
        try:
            b = f.to_bytes(v)
        except Exception as e:
            out.fail("c13.to_bytes_raises:%s:%s" % (case["kind"], type(e).__name__), [repr(v), repr(e)])
            return
        back = f.from_bytes(b)
        same = (back == v) and (case["kind"] != "float" or math.copysign(1, back) == math.copysign(1, v))
        if not same:
            out.fail("c13.bytes_roundtrip:%s" % case["kind"], {"value": repr(v), "back": repr(back), "cfg": _cfg(case)})
            return
        enc.append(b)
        if f.column_type is None:
            pass
    # order: byte order == numeric order (ties: equal numbers may differ only for +-0.0)
    pairs = sorted(zip(vals, enc), key=lambda p: p[1])
    for (v1, b1), (v2, b2) in zip(pairs, pairs[1:]):
        if key_of(case, v1) > key_of(case, v2):
            out.fail("c13.byte_order_not_numeric_order:%s" % case["kind"], {"a": repr(v1), "b": repr(v2), "cfg": _cfg(case)})
            return
        if b1 == b2 and not (key_of(case, v1) == key_of(case, v2)):
            out.fail("c13.encoding_not_injective:%s" % case["kind"], {"a": repr(v1), "b": repr(v2)})
            return
    # sortable/column round trip
    for v in vals:
        cv = f.to_column_value(v)
        if f.from_column_value(cv) != v:
            out.fail("c13.column_value_roundtrip:%s" % case["kind"], {"value": repr(v), "back": repr(f.from_column_value(cv))})
            return
    # tier coverage by membership
    i, j, se, ee, open_s, open_e = case["range"]
    srt = sorted(set(vals), key=lambda v: key_of(case, v))
    start = None if open_s else srt[i % len(srt)]
    end = None if open_e else srt[j % len(srt)]
    if start is not None and end is not None and key_of(case, start) > key_of(case, end):
        start, end = end, start
    bits = f.bits
    try:
        if case["kind"] == "datetime":
            s_num = None if start is None else datetime_to_long(start)
            e_num = None if end is None else datetime_to_long(end)
        else:
            s_num = None if start is None else f.prepare_number(start)
            e_num = None if end is None else f.prepare_number(end)
        ranges = list(tiered_ranges(f.numtype, bits, f.signed, s_num, e_num, f.shift_step, se, ee))
    except Exception as e:
        out.fail("c13.tiered_ranges_raises:%s" % type(e).__name__, {"cfg": _cfg(case), "start": repr(start), "end": repr(end),
                                                                    "err": repr(e)})
        return
    allowed = set(range(0, bits, f.shift_step)) if f.shift_step else {0}
    for v in vals:
        num = datetime_to_long(v) if case["kind"] == "datetime" else f.prepare_number(v)
        sv = to_sortable(f.numtype, bits, f.signed, num)
        inside = in_interval(case, v, start, end, se, ee)
        hit = False
        for s, e, shift in ranges:
            if shift not in allowed:
                out.fail("c13.tier_not_indexed", {"cfg": _cfg(case), "range": [s, e, shift]})
                return
            if (s >> shift) <= (sv >> shift) <= (e >> shift):
                hit = True
        if hit != inside:
            out.fail("c13.tier_membership:%s" % ("over_match" if hit else "under_match"),
                     {"cfg": _cfg(case), "value": repr(v), "start": repr(start), "end": repr(end), "se": se, "ee": ee,
                      "ranges": ranges[:6]})
            return
    out.nontrivial = len(set(enc)) >= 2
    out.label("kind_" + case["kind"], "step_%d" % case["step"])
    out.units = len(vals)


def _cfg(case):
    return dict((k, v) for k, v in case.items() if k not in ("values", "range", "queries"))


# ---------------------------------------------------------------------------------------------------- index layer

@st.composite
def index_case(draw):
    c = draw(codec_case())
    c["sortable"] = draw(st.booleans())
    c["queries"] = [[draw(st.integers(0, 40)), draw(st.integers(0, 40)), draw(st.booleans()), draw(st.booleans()),
                     draw(st.sampled_from([0, 0, 0, 1, 2]))] for _ in range(6)]
    c["segments"] = draw(st.integers(1, 3))
    return c


def domain_extremes(cfg):
    k = cfg["kind"]
    if k == "int":
        b = cfg["bits"]
        return [-(1 << b - 1), (1 << b - 1) - 1] if cfg["signed"] else [0, (1 << b) - 1]
    if k == "float":
        return [float("-inf"), float("inf")] if cfg["signed"] else [0.0, float("inf")]
    if k == "decimal":
        lim = (1 << cfg["bits"] - 1) - 1
        return [Decimal(-lim - 1).scaleb(-cfg["dp"]), Decimal(lim).scaleb(-cfg["dp"])]
    return [datetime.datetime.min, datetime.datetime.max]


def out_of_domain(cfg):
    k = cfg["kind"]
    if k == "int":
        b = cfg["bits"]
        lo, hi = (-(1 << b - 1), (1 << b - 1) - 1) if cfg["signed"] else (0, (1 << b) - 1)
        return [lo - 1, hi + 1]
    if k == "decimal":
        lim = (1 << cfg["bits"] - 1)
        return [Decimal(lim).scaleb(-cfg["dp"]), Decimal(-lim - 1).scaleb(-cfg["dp"])]
    if k == "float" and not cfg["signed"]:
        return [-1.0]
    return []


def run_index(case, out):
    f = make_field(case, sortable=case["sortable"])
    schema = fields.Schema(k=fields.STORED, v=f)
    vals = decode_values(case) + domain_extremes(case)
    ix = RamStorage().create_index(schema)
    nseg = case["segments"]
    chunks = [vals[i::nseg] for i in range(nseg)]
    key = 0
    docs = []
    for chunk in chunks:
        w = ix.writer()
        for v in chunk:
            try:
                w.add_document(k=key, v=v)
            except Exception as e:
                w.cancel()
                out.fail("c13.add_document_rejects_domain_value:%s:%s" % (case["kind"], type(e).__name__),
                         {"cfg": _cfg(case), "value": repr(v), "err": repr(e)})
                return
            docs.append((key, v))
            key += 1
        # out-of-domain values are rejected, never wrapped
        for bad in out_of_domain(case):
            try:
                w.add_document(k=-1, v=bad)
                out.fail("c13.out_of_domain_value_accepted:%s" % case["kind"], {"cfg": _cfg(case), "value": repr(bad)})
                w.cancel()
                return
            except (ValueError, OverflowError):
                pass
        w.commit(merge=False)
    srt = sorted(set(v for _, v in docs), key=lambda v: key_of(case, v))
    nt = False
    with ix.searcher() as s:
        for i, j, se, ee, openmode in case["queries"]:
            start = None if openmode == 1 else srt[i % len(srt)]
            end = None if openmode == 2 else srt[j % len(srt)]
            if start is not None and end is not None and key_of(case, start) > key_of(case, end):
                start, end = end, start
            if case["kind"] == "datetime":
                q = query.DateRange("v", start, end, se, ee)
            else:
                q = query.NumericRange("v", start, end, se, ee)
            try:
                got = sorted(h["k"] for h in s.search(q, limit=None))
            except Exception as e:
                out.fail("c13.range_query_raises:%s:%s" % (case["kind"], type(e).__name__),
                         {"cfg": _cfg(case), "start": repr(start), "end": repr(end), "se": se, "ee": ee, "err": repr(e)})
                return
            exp = sorted(k for k, v in docs if in_interval(case, v, start, end, se, ee))
            if got != exp:
                extra = sorted(set(got) - set(exp))
                miss = sorted(set(exp) - set(got))
                out.fail("c13.range_result_wrong:%s:%s" % (case["kind"], "over_match" if extra else "under_match"),
                         {"cfg": _cfg(case), "start": repr(start), "end": repr(end), "se": se, "ee": ee,
                          "extra": [repr(dict(docs)[k]) for k in extra][:5], "missing": [repr(dict(docs)[k]) for k in miss][:5]})
                return
            if 0 < len(exp) < len(docs) and case["step"]:
                nt = True
        # out-of-domain query bounds: rejected (exception or error/null query), never wrapped around
        for bad in out_of_domain(case):
            try:
                r = s.search(query.NumericRange("v", bad, bad), limit=None)
                if len(r):
                    out.fail("c13.out_of_domain_query_matches", {"cfg": _cfg(case), "value": repr(bad), "hits": len(r)})
                    return
            except (ValueError, OverflowError, query.QueryError):
                pass
        # sorting by the field orders by value (document order on ties)
        r = s.search(query.Every(), limit=None, sortedby="v")
        got = [h["k"] for h in r]
        exp = [k for k, v in sorted(docs, key=lambda kv: (key_of(case, kv[1]), kv[0]))]
        if got != exp:
            gv = [dict(docs)[k] for k in got]
            if True:
                out.fail("c13.sortedby_order_wrong:%s" % case["kind"], {"cfg": _cfg(case), "got": [repr(x) for x in gv][:12]})
                return
    out.nontrivial = nt
    out.label("kind_" + case["kind"], "step_%d" % case["step"], "sortable" if case["sortable"] else "posting_sort")


# ---------------------------------------------------------------------------------------------------- partial dates

PD_YEARS = [1, 1600, 1900, 1999, 2000, 2004, 2011, 2012, 2100, 9999]


def partialdates_enum(tier, shard, nshards):
    """every typed precision YYYY[MM[DD[hh[mm[ss]]]]] over leap / non-leap / century years, all months, the days on
    which month lengths differ, and the first / last hour, minute and second"""
    import calendar
    i = 0
    for y in PD_YEARS:
        combos = [[y]]
        for m in range(1, 13):
            combos.append([y, m])
            last = calendar.monthrange(y, m)[1]
            for d in sorted(set([1, 28, last])):
                combos.append([y, m, d])
                for h in (0, 23):
                    combos.append([y, m, d, h])
                    for mn in (0, 59):
                        combos.append([y, m, d, h, mn])
                        for sec in (0, 59):
                            combos.append([y, m, d, h, mn, sec])
        for c in combos:
            if i % nshards == shard:
                yield {"parts": c}
            i += 1


def _pd_bounds(parts):
    import calendar
    lo = list(parts) + [1, 1, 0, 0, 0][len(parts) - 1:]
    hi = list(parts)
    while len(hi) < 6:
        n = len(hi)
        hi.append(12 if n == 1 else calendar.monthrange(hi[0], hi[1])[1] if n == 2 else [23, 59, 59][n - 3])
    return datetime.datetime(*lo), datetime.datetime(*(hi + [999999]))


def run_partialdates(case, out):
    parts = case["parts"]
    text = "%04d" % parts[0] + "".join("%02d" % x for x in parts[1:])
    lo, hi = _pd_bounds(parts)
    fld = fields.DATETIME(stored=True)
    us = datetime.timedelta(microseconds=1)
    probes = {"lo": lo, "hi": hi, "mid": lo + (hi - lo) // 2}
    if lo > datetime.datetime.min + us:
        probes["below"] = lo - us
    if hi < datetime.datetime.max - us:
        probes["above"] = hi + us
    expected = sorted(k for k in probes if k in ("lo", "hi", "mid"))
    # the neighbouring period of the same precision, for a two-ended range
    schema = fields.Schema(k=fields.ID(stored=True), d=fld)
    ix = RamStorage().create_index(schema)
    w = ix.writer()
    for k in sorted(probes):
        w.add_document(k=k, d=probes[k])
    w.commit()
    q1 = fld.parse_query("d", text)
    q2 = fld.parse_range("d", text, text, False, False)
    q3 = fld.parse_range("d", text, None, False, False)
    q4 = fld.parse_range("d", None, text, False, False)
    with ix.searcher() as s:
        for name, q, exp in (("term", q1, expected), ("range", q2, expected),
                             ("from", q3, sorted(k for k in probes if k != "below")),
                             ("upto", q4, sorted(k for k in probes if k != "above"))):
            got = sorted(h["k"] for h in s.search(q, limit=None))
            if got != exp:
                out.fail("c13.partial_date_%s_wrong" % name, {"typed": text, "query": repr(q)[:200], "got": got,
                                                               "expected": exp, "period": [str(lo), str(hi)]})
    out.nontrivial = len(parts) < 6 and "below" in probes and "above" in probes
    out.key = case
    out.label("precision_%d" % len(parts))


SUBS = {
    "tiers8": Sub(run_tiers8, enum=tiers8_enum, quick_shards=8),
    "codec": Sub(run_codec, lambda tier: codec_case(), quick=400, thorough=6000, quick_shards=8),
    "index": Sub(run_index, lambda tier: index_case(), quick=120, thorough=2000, quick_shards=8),
    "partialdates": Sub(run_partialdates, enum=partialdates_enum, quick_shards=8),
}
