"""C20 - on-disk tables, number codecs and doc-id sets implement their abstract types."""
import os
import bisect
import math
from io import BytesIO

from hypothesis import strategies as st

from wv.runner import Sub
from wv.util import tempdir, lb

PROP = "C20"
LEVEL = "exploration"
RULE = ("Hypothesis-generated cases per sub-check (hash files: key/value multisets over a small byte "
        "alphabet so that keys share prefixes and hash buckets collide, optional >64 KiB value to retype the "
        "position index; ordered hash files with probe keys below/at/between/above; varint / delta / growable "
        "array / number-list round trips; external sort with run sizes 1..n and maxfiles 2..k; compound files "
        "with member sizes 0..3*buffer and a seek/read program; doc-id set operation programs run against a "
        "Python set). Non-trivial = hash: >=2 keys sharing a bucket or a duplicate key; ordered: a probe "
        "strictly between two keys; nums: list length >= 2; sort: >=2 runs spilled to disk; compound: >=2 "
        "members and one larger than the buffer; idset: program with >=1 mutation followed by a read. Distinct "
        "by SHA-1 of the canonical case.")
ASSUMPTIONS = [
    "hash files with offsets beyond 2^31 bytes are not generated (would need 2 GiB files)",
    "NumberEncoding subclasses that no index format uses (Byte/UShort/UInt encodings, Simple16, GInts: dead "
    "code with Python-3 defects) are outside the statement ('encodings the index formats are built from') "
    "and are not checked",
    "RoaringIdSet is not listed in the property and not checked",
]

# ---------------------------------------------------------------------------- strategies

_small = st.text(alphabet="ab\x00\xff", max_size=5)
_any = st.text(alphabet=st.characters(max_codepoint=255), max_size=12)
key_s = st.one_of(_small, _small, _any)
val_s = st.one_of(st.text(alphabet="xy", max_size=3), _any,
                  st.integers(0, 400).map(lambda n: "v" * n))
store_s = st.sampled_from(["ram", "file", "file_nommap"])


def _storage(kind, d):
    from whoosh.filedb.filestore import RamStorage, FileStorage
    if kind == "ram":
        return RamStorage()
    return FileStorage(d, supports_mmap=(kind == "file"))


# ---------------------------------------------------------------------------- hash files


# pairs of different keys of equal length whose full 32-bit hash is equal, per hash type (md5, crc32, cdb); found by a
# seeded birthday search and re-verified at run time (a pair that no longer collides is simply an ordinary key pair)
COLLIDERS = {
    0: [("vgdphbve", "otrrxhtk"), ("huwmbbtg", "wqfhmwea"), ("qwnfctkc", "vphwmiye")],
    1: [("hotjzpsr", "iwoffbzx"), ("hybrlkql", "gxnlbcjc"), ("ejxvszdj", "uuqyyozl")],
    2: [("ojqbdaui", "kicxkyjn"), ("lewzsjqf", "rlgxfmtt"), ("faeccxuk", "uldgvmpu")],
}


def hash_strategy(tier):
    n = 300 if tier == "quick" else 700
    return st.fixed_dictionaries({
        # which colliding pairs take part: both keys stored / only the first stored and the second probed as absent
        "colliders": st.lists(st.tuples(st.integers(0, 2), st.sampled_from(["both", "first_only", "second_only"])).map(list),
                              max_size=3),
        "hashtype": st.sampled_from([0, 1, 2]),
        "pairs": st.lists(st.tuples(key_s, val_s).map(list), max_size=n),
        "probes": st.lists(key_s, max_size=10),
        "store": store_s,
        "big": st.one_of(st.none(), st.tuples(st.integers(0, 50), st.sampled_from([65400, 65536, 70000])).map(list)),
    })


def run_hash(case, out):
    from whoosh.filedb.filetables import HashWriter, HashReader, _hash_functions
    pairs = [(lb(k), lb(v)) for k, v in case["pairs"]]
    extra_probes = []
    collide = False
    for ci, (idx, mode) in enumerate(case.get("colliders", [])):
        k1, k2 = [lb(x) for x in COLLIDERS[case["hashtype"]][idx]]
        fn = _hash_functions[case["hashtype"]]
        if fn(k1) == fn(k2):
            collide = True
        at = (ci * 7) % (len(pairs) + 1)
        if mode in ("both", "first_only"):
            pairs.insert(at, (k1, b"value-of-" + k1))
        if mode in ("both", "second_only"):
            pairs.insert(min(len(pairs), at + 2), (k2, b"value-of-" + k2))
        extra_probes += [k1, k2]
    if case["big"] and pairs:
        i, ln = case["big"]
        i %= len(pairs)
        pairs[i] = (pairs[i][0], b"B" * ln)
    model = {}
    for k, v in pairs:
        model.setdefault(k, []).append(v)
    hfn = None
    with tempdir() as d:
        stg = _storage(case["store"], d)
        hw = HashWriter(stg.create_file("h"), hashtype=case["hashtype"])
        for k, v in pairs:
            hw.add(k, v)
        hw.close()
        hr = HashReader.open(stg, "h")
        try:
            hfn = hr.hashfn
            if list(hr.items()) != pairs:
                out.fail("hash.items", [case["hashtype"]])
            if list(hr) != pairs:
                out.fail("hash.iter")
            if list(hr.keys()) != [k for k, _ in pairs]:
                out.fail("hash.keys")
            if list(hr.values()) != [v for _, v in pairs]:
                out.fail("hash.values")
            for k, vs in model.items():
                if list(hr.all(k)) != vs:
                    out.fail("hash.all", [repr(k), repr(vs)[:200]])
                if hr[k] != vs[0] or hr.get(k) != vs[0] or k not in hr:
                    out.fail("hash.getitem", repr(k))
            probes = extra_probes + [lb(p) for p in case["probes"]] + [k + b"\x00" for k in list(model)[:5]] + \
                     [k[:-1] for k in list(model)[:5] if k]
            for p in probes:
                if p in model:
                    continue
                sentinel = b"<absent>"
                if p in hr or hr.get(p, sentinel) is not sentinel or list(hr.all(p)) != []:
                    out.fail("hash.absent", repr(p))
                try:
                    hr[p]
                    out.fail("hash.absent_getitem", repr(p))
                except KeyError:
                    pass
        finally:
            hr.close()
    buckets = {}
    for k in model:
        buckets.setdefault(hfn(k) & 255, []).append(k)
    shared = any(len(v) > 1 for v in buckets.values())
    dup = any(len(v) > 1 for v in model.values())
    out.nontrivial = shared or dup
    out.label("hashtype%d" % case["hashtype"], case["store"])
    if shared:
        out.label("bucket_shared")
    if collide:
        out.label("full_hash_collision")
    if dup:
        out.label("dup_key")
    if sum(len(k) + len(v) + 8 for k, v in pairs) > 65536:
        out.label("over_64k")


# ---------------------------------------------------------------------------- ordered hash


def ordered_strategy(tier):
    n = 200 if tier == "quick" else 500
    nonempty = key_s.filter(lambda s: len(s) > 0)
    return st.fixed_dictionaries({
        "keys": st.lists(nonempty, max_size=n, unique=True),
        "vals": st.lists(val_s, min_size=1, max_size=5),
        "probes": st.lists(key_s, max_size=12),
        "store": store_s,
        "big": st.one_of(st.none(), st.tuples(st.integers(0, 50), st.sampled_from([65400, 65536, 70000])).map(list)),
        "fielded": st.booleans(),
    })


def run_ordered(case, out):
    from whoosh.filedb.filetables import OrderedHashWriter, OrderedHashReader
    keys = sorted(lb(k) for k in case["keys"])
    vals = [lb(v) for v in case["vals"]]
    items = [(k, vals[i % len(vals)]) for i, k in enumerate(keys)]
    if case["big"] and items:
        i, ln = case["big"]
        i %= len(items)
        items[i] = (items[i][0], b"B" * ln)
    probes = [lb(p) for p in case["probes"]] + [b""] + keys[:3] + [k + b"\x00" for k in keys[-2:]] + \
             [k[:-1] for k in keys[:4]]
    between = False
    with tempdir() as d:
        stg = _storage(case["store"], d)
        w = OrderedHashWriter(stg.create_file("o"))
        for k, v in items:
            w.add(k, v)
        w.close()
        r = OrderedHashReader.open(stg, "o")
        try:
            if list(r.items()) != items:
                out.fail("ordered.items")
            for k, v in items:
                if r.get(k) != v:
                    out.fail("ordered.get", repr(k))
            for p in probes:
                i = bisect.bisect_left(keys, p)
                exp = keys[i] if i < len(keys) else None
                got = r.closest_key(p)
                if got != exp:
                    out.fail("ordered.closest_key", [repr(p), repr(got), repr(exp)])
                if list(r.keys_from(p)) != keys[i:]:
                    out.fail("ordered.keys_from", repr(p))
                if list(r.items_from(p)) != items[i:]:
                    out.fail("ordered.items_from", repr(p))
                if p not in keys:
                    if p in r or r.get(p) is not None:
                        out.fail("ordered.absent", repr(p))
                    if 0 < i < len(keys):
                        between = True
        finally:
            r.close()
    out.nontrivial = between and len(keys) >= 2
    out.label(case["store"])
    if sum(len(k) + len(v) + 8 for k, v in items) > 65536:
        out.label("index_retyped_over_64k")


# ---------------------------------------------------------------------------- numbers

u_s = st.one_of(st.integers(0, 300), st.integers(0, 2 ** 16 + 5), st.integers(0, 2 ** 32 + 5),
                st.integers(0, 2 ** 70),
                st.sampled_from([127, 128, 255, 256, 511, 512, 16383, 16384, 2 ** 21 - 1, 2 ** 21, 2 ** 28 - 1,
                                 2 ** 28, 2 ** 31 - 1, 2 ** 31, 2 ** 32 - 1, 2 ** 32, 2 ** 35, 2 ** 63 - 1]))


def nums_strategy(tier):
    return st.fixed_dictionaries({
        "unsigned": st.lists(u_s, max_size=60),
        "signed": st.lists(st.one_of(st.integers(-300, 300), st.integers(-2 ** 40, 2 ** 40),
                                     # (Python ints are unbounded and so is the encoding: beyond 64 bits too)
                                     st.integers(-2 ** 70, 2 ** 70), st.sampled_from([2 ** 63, -2 ** 63, -2 ** 63 - 1, 2 ** 64, -2 ** 64])), max_size=30),
        "small28": st.lists(st.one_of(st.integers(0, 3), st.integers(0, 2 ** 28 - 1)), max_size=80),
        "u32": st.lists(st.one_of(st.integers(0, 300), st.integers(0, 2 ** 32 - 1),
                                  st.sampled_from([255, 256, 65535, 65536, 2 ** 24 - 1, 2 ** 24])), max_size=40),
        "garray": st.lists(st.one_of(st.integers(0, 255), st.integers(0, 2 ** 16), st.integers(0, 2 ** 33),
                                     st.sampled_from([255, 256, 65535, 65536, 2 ** 31 - 1, 2 ** 31, 2 ** 32 - 1,
                                                      2 ** 32, 2 ** 62])), max_size=40),
        "garray_init": st.sampled_from(["B", "H", "i", "I", "q"]),
        "lengths": st.lists(st.integers(0, 70000), max_size=20),
    })


def run_nums(case, out):
    from whoosh.util import varints
    from whoosh.util.numlists import (delta_encode, delta_decode, GrowableArray, Varints)
    from whoosh.filedb.structfile import StructFile
    from whoosh.util.numeric import length_to_byte, byte_to_length

    us = case["unsigned"]
    # varint: round trip and minimal length
    for n in us:
        enc = varints.varint(n)
        if varints.read_varint(BytesIO(enc).read) != n:
            out.fail("nums.varint_roundtrip", n)
        if len(enc) != max(1, int(math.ceil(n.bit_length() / 7.0))):
            out.fail("nums.varint_minimal", n)
    f = StructFile(BytesIO())
    for n in us:
        f.write_varint(n)
    for n in case["signed"]:
        f.write_svarint(n)
    f.seek(0)
    if [f.read_varint() for _ in us] != us:
        out.fail("nums.structfile_varint")
    if [f.read_svarint() for _ in case["signed"]] != case["signed"]:
        out.fail("nums.structfile_svarint")
    for n in case["signed"]:
        enc = varints.signed_varint(n)
        if varints.decode_signed_varint(varints.read_varint(BytesIO(enc).read)) != n:
            out.fail("nums.signed_varint", n)
    # delta coding (ascending lists as the posting format uses, and arbitrary lists)
    asc = sorted(us)
    if list(delta_decode(delta_encode(asc))) != asc or list(delta_decode(delta_encode(us))) != us:
        out.fail("nums.delta")
    if any(x < 0 for x in delta_encode(asc)):
        out.fail("nums.delta_negative_on_ascending")
    # number lists
    for enc, xs in ((Varints(), us),):
        f = StructFile(BytesIO())
        enc.write_nums(f, xs)
        f.seek(0)
        got = list(enc.read_nums(f, len(xs)))
        if got != xs:
            out.fail("nums.numlist_%s" % type(enc).__name__, [xs[:20], got[:20]])
        if xs:
            srt = sorted(xs)
            f = StructFile(BytesIO())
            enc.write_deltas(f, srt)
            f.seek(0)
            if list(enc.read_deltas(f, len(srt))) != srt:
                out.fail("nums.numlist_deltas_%s" % type(enc).__name__)
    # growable array against a list
    ga = GrowableArray(case["garray_init"])
    ref = []
    half = len(case["garray"]) // 2
    for n in case["garray"][:half]:
        ga.append(n)
        ref.append(n)
    ga.extend(case["garray"][half:])
    ref.extend(case["garray"][half:])
    if list(ga) != ref or len(ga) != len(ref):
        out.fail("nums.growable_contents", [ref, list(ga)])
    f = StructFile(BytesIO())
    ga.to_file(f)
    f.seek(0)
    back = list(f.read_array(ga.typecode, len(ref)))
    if back != ref:
        out.fail("nums.growable_to_file", [ga.typecode, ref, back])
    # field-length byte approximation: monotone, decodes to something <= x? (documented: approximation)
    ls = sorted(case["lengths"])
    bs = [length_to_byte(x) for x in ls]
    if any(a > b for a, b in zip(bs, bs[1:])):
        out.fail("nums.length_to_byte_monotone", ls)
    for b in set(bs):
        if length_to_byte(byte_to_length(b)) != b:
            out.fail("nums.length_byte_fixpoint", b)
    out.nontrivial = len(us) >= 2
    out.units = len(us) + len(case["signed"])
    if any(n >= 2 ** 32 for n in case["garray"]):
        out.label("garray_q")
    if any(n >= 2 ** 28 for n in us):
        out.label("varint_5plus_bytes")


# ---------------------------------------------------------------------------- base85


def b85_strategy(tier):
    return st.fixed_dictionaries({
        "short": st.lists(st.integers(0, 85 ** 5 - 1), min_size=2, max_size=20),
        "long": st.lists(st.integers(0, 85 ** 10 - 1), min_size=2, max_size=20),
    })


def run_b85(case, out):
    from whoosh.support.base85 import to_base85, from_base85
    for xs, islong in ((case["short"], False), (case["long"], True)):
        enc = [to_base85(x, islong) for x in xs]
        if [from_base85(e) for e in enc] != xs:
            out.fail("b85.roundtrip")
        if any(len(e) != (10 if islong else 5) for e in enc):
            out.fail("b85.length")
        if sorted(enc) != [to_base85(x, islong) for x in sorted(xs)]:
            out.fail("b85.order")
    out.nontrivial = True


# ---------------------------------------------------------------------------- external sort

item_s = st.one_of(
    st.integers(-1000, 1000),
    st.tuples(st.text(alphabet="abc", max_size=3), st.integers(0, 5)).map(list),
)


def sort_strategy(tier):
    ints = st.lists(st.integers(-1000, 1000), max_size=120)
    tups = st.lists(st.tuples(st.text(alphabet="abc", max_size=3), st.integers(0, 5), st.floats(0, 4, width=32))
                    .map(list), max_size=120)
    byts = st.lists(st.tuples(_small, st.integers(0, 9)).map(list), max_size=120)
    return st.fixed_dictionaries({
        "kind": st.sampled_from(["int", "tuple", "bytes"]),
        "ints": ints, "tuples": tups, "bytes": byts,
        "maxsize": st.integers(1, 40),
        "maxfiles": st.integers(2, 9),
        "via": st.sampled_from(["sort", "pool"]),
    })


def run_sort(case, out):
    from whoosh.externalsort import sort, SortingPool
    if case["kind"] == "int":
        items = list(case["ints"])
    elif case["kind"] == "tuple":
        items = [tuple(x) for x in case["tuples"]]
    else:
        items = [(lb(k), n) for k, n in case["bytes"]]
    exp = sorted(items)
    with tempdir() as d:
        if case["via"] == "sort":
            got = list(sort(items, maxsize=case["maxsize"], tempdir=d, maxfiles=case["maxfiles"]))
        else:
            p = SortingPool(maxsize=case["maxsize"], tempdir=d)
            for it in items:
                p.add(it)
            got = list(p.items(maxfiles=case["maxfiles"]))
        if got != exp:
            out.fail("sort.order", [items[:30], got[:30]])
        left = os.listdir(d)
        if left:
            out.fail("sort.tempfiles_left", left)
    runs = (len(items) + case["maxsize"] - 1) // case["maxsize"]
    out.nontrivial = runs >= 2
    if runs > case["maxfiles"]:
        out.label("reduce_to_engaged")
    out.label(case["kind"], case["via"])


# ---------------------------------------------------------------------------- compound files


def compound_strategy(tier):
    member = st.fixed_dictionaries({
        "name": st.text(alphabet="abcdef", min_size=1, max_size=4),
        "chunks": st.lists(st.tuples(st.integers(0, 200), st.integers(0, 255)).map(list), max_size=12),
    })
    return st.fixed_dictionaries({
        "members": st.lists(member, min_size=1, max_size=6, unique_by=lambda m: m["name"]),
        "buffersize": st.sampled_from([1, 2, 7, 64, 256, 1024]),
        "store": store_s,
        "mode": st.sampled_from(["writer", "assemble", "files"]),
        "prog": st.lists(st.tuples(st.integers(0, 5), st.sampled_from(["seek", "seekrel", "read", "readall", "tell"]),
                                   st.integers(0, 700)).map(list), max_size=25),
    })


def run_compound(case, out):
    from whoosh.filedb.compound import CompoundWriter, CompoundStorage
    from whoosh.filedb.filestore import RamStorage
    members = {}
    chunks = {}
    for m in case["members"]:
        cs = [bytes([(b + j) % 256 for j in range(n)]) for n, b in m["chunks"]]
        chunks[m["name"]] = cs
        members[m["name"]] = b"".join(cs)
    names = sorted(members)
    with tempdir() as d:
        stg = _storage(case["store"], d)
        mmap_ok = case["store"] == "file"
        if case["mode"] == "assemble":
            src = RamStorage()
            for nm in names:
                f = src.create_file(nm)
                for c in chunks[nm]:
                    f.write(c)
                f.close()
            CompoundStorage.assemble(stg.create_file("cmp"), src, names)
        else:
            cw = CompoundWriter(stg.temp_storage("tmp") if case["store"] != "ram" else RamStorage(),
                                buffersize=case["buffersize"])
            fs = {nm: cw.create_file(nm) for nm in names}
            for nm in names:
                for c in chunks[nm]:
                    fs[nm].write(c)
            if case["mode"] == "writer":
                cw.save_as_compound(stg.create_file("cmp"))
            else:
                cw.save_as_files(stg, lambda nm: "m_" + nm)
        if case["mode"] == "files":
            for nm in names:
                if stg.file_length("m_" + nm) != len(members[nm]):
                    out.fail("compound.files_length", nm)
                f = stg.open_file("m_" + nm)
                if f.read() != members[nm]:
                    out.fail("compound.files_content", nm)
                f.close()
        else:
            cs = CompoundStorage(stg.open_file("cmp"), use_mmap=mmap_ok)
            try:
                if sorted(cs.list()) != names:
                    out.fail("compound.list", [sorted(cs.list()), names])
                for nm in names:
                    if not cs.file_exists(nm) or cs.file_length(nm) != len(members[nm]):
                        out.fail("compound.length", nm)
                if cs.file_exists("zz_absent"):
                    out.fail("compound.absent_exists")
                handles = {}
                for nm in names:
                    f = cs.open_file(nm)
                    data = f.read()
                    if bytes(data) != members[nm]:
                        out.fail("compound.content", [nm, len(data), len(members[nm])])
                    f.seek(0)
                    handles[nm] = [f, 0]
                # interleaved seek/read program over all members (sub-files share the parent handle)
                for mi, op, arg in case["prog"]:
                    nm = names[mi % len(names)]
                    f, pos = handles[nm]
                    ref = members[nm]
                    if op == "seek":
                        pos = arg % (len(ref) + 1)
                        f.seek(pos)
                    elif op == "seekrel":
                        delta = arg % 7
                        if pos + delta <= len(ref):
                            f.seek(delta, 1)
                            pos += delta
                    elif op == "read":
                        n = 0 if arg % 5 == 0 else arg % 300   # (a zero-length read returns nothing and stays put)
                        got = bytes(f.read(n))
                        if got != ref[pos:pos + n]:
                            out.fail("compound.prog_read", [nm, pos, n])
                        pos += len(ref[pos:pos + n])
                    elif op == "readall":
                        got = bytes(f.read())
                        if got != ref[pos:]:
                            out.fail("compound.prog_readall", [nm, pos])
                        pos = len(ref)
                    elif op == "tell":
                        if f.tell() != pos:
                            out.fail("compound.prog_tell", [nm, f.tell(), pos])
                    handles[nm][1] = pos
                for f, _ in handles.values():
                    f.close()
            finally:
                cs.close()
    big = any(len(v) > case["buffersize"] for v in members.values())
    out.nontrivial = len(names) >= 2 and big
    out.label(case["mode"], case["store"])
    if any(len(v) == 0 for v in members.values()):
        out.label("empty_member")


# ---------------------------------------------------------------------------- doc-id sets

N = 80  # small universe so that operations interact
num_s = st.one_of(st.integers(0, N), st.integers(0, 23), st.sampled_from([0, 7, 8, 15, 16, 63, 64, 65, N]))
numset_s = st.lists(num_s, max_size=14)
big_s = st.one_of(num_s, st.integers(0, 70000))

_mut_ops = st.one_of(
    st.tuples(st.just("add"), num_s),
    st.tuples(st.just("discard"), num_s),
    st.tuples(st.just("update"), numset_s, st.sampled_from(["list", "set", "same"])),
    st.tuples(st.just("intersection_update"), numset_s, st.sampled_from(["set", "same", "bitset"])),
    st.tuples(st.just("difference_update"), numset_s, st.sampled_from(["set", "same", "bitset", "list"])),
    st.tuples(st.just("union"), numset_s, st.sampled_from(["set", "same", "bitset", "list"])),
    st.tuples(st.just("intersection"), numset_s, st.sampled_from(["set", "same", "bitset"])),
    st.tuples(st.just("difference"), numset_s, st.sampled_from(["set", "same", "bitset"])),
    st.tuples(st.just("invert_update"), st.integers(0, 40)),
    st.tuples(st.just("invert"), st.integers(0, 40)),
    st.tuples(st.just("copy")),
    st.tuples(st.just("clear")),
)
_read_ops = st.one_of(
    st.tuples(st.just("before"), st.integers(0, N + 20)),
    st.tuples(st.just("after"), st.integers(-1, N + 20)),
    st.tuples(st.just("firstlast")),
    st.tuples(st.just("isdisjoint"), numset_s, st.sampled_from(["set", "same", "bitset"])),
    st.tuples(st.just("eq"), numset_s),
)


def idset_strategy(tier):
    ops = st.lists(st.one_of(_mut_ops, _read_ops).map(list), max_size=25)
    return st.fixed_dictionaries({
        "type": st.sampled_from(["bitset", "sorted", "reverse_bitset", "reverse_sorted", "ondisk", "multi"]),
        "init": st.lists(st.one_of(num_s, num_s, big_s), max_size=20),
        "init_form": st.sampled_from(["list", "set", "adds", "sized"]),
        "ops": ops,
        "limit_extra": st.integers(0, 20),
        "parts": st.lists(st.tuples(st.integers(1, 30), st.lists(st.integers(0, 29), max_size=8)).map(list),
                          min_size=1, max_size=4),
        "store": store_s,
    })


def _mk(kind, nums, form="list"):
    from whoosh.idsets import BitSet, SortedIntSet
    if kind == "bitset":
        if form == "adds" or not nums:
            s = BitSet()
            for n in nums:
                s.add(n)
            return s
        if form == "sized":
            return BitSet(nums, size=max(nums) + 1)
        return BitSet(set(nums) if form == "set" else list(nums))
    else:
        if form == "adds":
            s = SortedIntSet()
            for n in nums:
                s.add(n)
            return s
        return SortedIntSet(set(nums) if form == "set" else list(nums))


def _operand(kind, selfkind, nums):
    if kind == "set":
        return set(nums)
    if kind == "list":
        return list(nums)
    if kind == "bitset":
        return _mk("bitset", nums)
    return _mk(selfkind, nums)


def _compare(out, tag, real, model, universe):
    lst = list(real)
    exp = sorted(model)
    if lst != exp:
        out.fail("idset.%s.iter" % tag, [lst[:40], exp[:40]])
        return False
    if len(real) != len(exp):
        out.fail("idset.%s.len" % tag, [len(real), len(exp)])
    if bool(real) != bool(exp):
        out.fail("idset.%s.bool" % tag)
    for i in universe:
        if (i in real) != (i in model):
            out.fail("idset.%s.contains" % tag, i)
            break
    return True


def run_idset(case, out):
    from whoosh.idsets import BitSet, SortedIntSet, ReverseIdSet, OnDiskBitSet, MultiIdSet
    kind = case["type"]
    init = list(case["init"])
    out.label(kind)

    if kind == "multi":
        subsets, offsets, model, base = [], [], set(), 0
        for j, (size, nums) in enumerate(case["parts"]):
            nums = sorted(set(n for n in nums if n < size))
            subsets.append(_mk("bitset" if j % 2 == 0 else "sorted", nums))
            offsets.append(base)
            model.update(n + base for n in nums)
            base += size
        ms = MultiIdSet(subsets, offsets)
        _compare(out, "multi", ms, model, range(base))
        out.nontrivial = len(subsets) >= 2 and len(model) >= 2
        return

    if kind == "ondisk":
        bs = _mk("bitset", init, case["init_form"])
        with tempdir() as d:
            stg = _storage(case["store"], d)
            f = stg.create_file("bits")
            f.write(b"pad")
            n = bs.to_disk(f)
            f.close()
            f = stg.open_file("bits")
            od = OnDiskBitSet(f, 3, n)
            model = set(init)
            top = (max(model) if model else 0) + 20
            _compare(out, "ondisk", od, model, range(top))
            _reads(out, "ondisk", od, model, case["ops"], "bitset")
            back = BitSet.from_disk(stg.open_file("bits").subset(3, n) if False else _seeked(stg, 3), n)
            _compare(out, "ondisk.from_disk", back, model, range(top))
            f.close()
        out.nontrivial = len(model) >= 2
        return

    base_kind = "bitset" if kind.endswith("bitset") else "sorted"
    reverse = kind.startswith("reverse")
    if reverse:
        init = [n for n in init if n <= N]
    inner = _mk(base_kind, init, case["init_form"])
    if reverse:
        limit = (max(init) + 1 if init else 0) + case["limit_extra"]
        real = ReverseIdSet(inner, limit)
        model = set(range(limit)) - set(init)
        universe = range(limit)
        _compare(out, kind, real, model, universe)
        steps = 0
        for op in case["ops"]:
            name = op[0]
            if name == "add" and op[1] < limit:
                real.add(op[1])
                model.add(op[1])
                steps += 1
            elif name == "discard" and op[1] < limit:
                real.discard(op[1])
                model.discard(op[1])
                steps += 1
            elif name == "firstlast" and model:
                if real.first() != min(model):
                    out.fail("idset.%s.first" % kind, [real.first(), min(model)])
                if real.last() != max(model):
                    out.fail("idset.%s.last" % kind, [real.last(), max(model)])
            else:
                continue
            if not _compare(out, kind, real, model, universe):
                return
        out.nontrivial = steps >= 1
        return

    model = set(init)
    real = inner
    frozen = []  # (copy object, frozen model) pairs: copies must stay independent
    muts = 0
    read_after_mut = False
    top = lambda: (max(model) if model else 0) + 20  # noqa
    if not _compare(out, kind, real, model, range(top())):
        return
    for op in case["ops"]:
        name = op[0]
        if name == "add":
            real.add(op[1])
            model.add(op[1])
        elif name == "discard":
            real.discard(op[1])
            model.discard(op[1])
        elif name in ("update", "intersection_update", "difference_update"):
            other = _operand(op[2], base_kind, op[1])
            getattr(real, name)(other)
            getattr(model, name)(set(op[1]))
        elif name in ("union", "intersection", "difference"):
            other = _operand(op[2], base_kind, op[1])
            before = set(model)
            res = getattr(real, name)(other)
            exp = getattr(model, name)(set(op[1]))
            if not _compare(out, kind + "." + name, res, exp, range(top())):
                return
            if not _compare(out, kind + "." + name + ".self_unchanged", real, before, range(top())):
                return
            frozen.append((real, before))
            real, model = res, set(exp)
        elif name in ("invert", "invert_update"):
            size = (max(model) + 1 if model else 0) + op[1]
            exp = set(range(size)) - model
            if name == "invert":
                res = real.invert(size)
                if not _compare(out, kind + ".invert", res, exp, range(size + 10)):
                    return
                frozen.append((real, set(model)))
                real = res
            else:
                real.invert_update(size)
            model = exp
        elif name == "copy":
            c = real.copy()
            frozen.append((real, set(model)))
            real = c
        elif name == "clear":
            real.clear()
            model.clear()
        elif name == "eq":
            other_nums = set(op[1])
            for o in (_mk(base_kind, sorted(other_nums)), _mk(base_kind, sorted(model))):
                if (real == o) != (model == set(o)):
                    out.fail("idset.%s.eq" % kind, [sorted(model), sorted(set(o))])
            read_after_mut = read_after_mut or muts > 0
            continue
        else:
            _reads(out, kind, real, model, [op], base_kind)
            read_after_mut = read_after_mut or muts > 0
            continue
        muts += 1
        if not _compare(out, kind + "." + name, real, model, range(top())):
            return
        for obj, fm in frozen[-3:]:
            if list(obj) != sorted(fm):
                out.fail("idset.%s.copy_not_independent" % kind, name)
                return
    out.nontrivial = muts >= 1 and (read_after_mut or len(case["ops"]) > muts or muts >= 2)


def _seeked(stg, pos):
    f = stg.open_file("bits")
    f.seek(pos)
    return f


def _reads(out, tag, real, model, ops, base_kind):
    srt = sorted(model)
    for op in ops:
        name = op[0]
        if name == "before":
            i = op[1]
            exp = max([x for x in srt if x < i], default=None)
            got = real.before(i)
            if got != exp:
                out.fail("idset.%s.before" % tag, [srt, i, got, exp])
        elif name == "after":
            i = op[1]
            exp = min([x for x in srt if x > i], default=None)
            got = real.after(i)
            if got != exp:
                out.fail("idset.%s.after" % tag, [srt, i, got, exp])
        elif name == "firstlast":
            if srt:
                if real.first() != srt[0]:
                    out.fail("idset.%s.first" % tag, [srt, real.first()])
                if real.last() != srt[-1]:
                    out.fail("idset.%s.last" % tag, [srt, real.last()])
            elif base_kind == "bitset":
                if real.first() is not None or real.last() is not None:
                    out.fail("idset.%s.firstlast_empty" % tag)
        elif name == "isdisjoint":
            other = _operand(op[2], base_kind, op[1])
            if real.isdisjoint(other) != model.isdisjoint(set(op[1])):
                out.fail("idset.%s.isdisjoint" % tag, [srt, op[1]])


SUBS = {
    "hash": Sub(run_hash, hash_strategy, quick=60, thorough=500),
    "ordered": Sub(run_ordered, ordered_strategy, quick=60, thorough=500),
    "nums": Sub(run_nums, nums_strategy, quick=150, thorough=1500),
    "b85": Sub(run_b85, b85_strategy, quick=50, thorough=300, quick_shards=1),
    "sort": Sub(run_sort, sort_strategy, quick=100, thorough=800),
    "compound": Sub(run_compound, compound_strategy, quick=100, thorough=800),
    "idset": Sub(run_idset, idset_strategy, quick=500, thorough=5000),
}
