"""C15 - query rewriting never changes what a query means."""
import copy
import pickle

from hypothesis import strategies as st

from whoosh import query as wq

from wv.runner import Sub
from wv import corpus, gen
from wv.refquery import ref_eval, to_whoosh, shape, walk

PROP = "C15"
LEVEL = "exploration"
RULE = ("Each case = a small generated index (0-3 commits, with deletions) and 10 generated query trees from the "
        "C01 grammar extended with NullQuery, unfielded Every, empty/singleton/duplicate-clause compounds, 0/1-word "
        "phrases, overlapping/nested ranges and '[' wildcards. For each tree q and each rewrite r in {normalize, "
        "normalize twice, a&b, a|b, a-b against the explicit And/Or/And-Not trees, with_boost, replace(absent "
        "term), apply(identity), accept(identity), copy, deepcopy, pickle, simplify(reader)} the set "
        "docs_for_query(r(q)) must equal docs_for_query(q); normalize must be idempotent and not raise; "
        "estimate_size >= match count. Near-duplicates: for up to three copies q' of q that differ in one matching-"
        "relevant parameter of one node (slop, ordered, mindist, span limit, fuzzy distance / prefix length, an "
        "excluded range end), And([q, q']).normalize() and Or([q, q']).normalize() must match docs(q) & docs(q') and "
        "docs(q) | docs(q'). A (query, rewrite) pair is non-trivial when r(q) != q structurally and the "
        "result set is neither empty nor every document; distinct by SHA-1 of (rewrite, query shape, result size).")
ASSUMPTIONS = [
    "the original query's own result (docs_for_query) is the reference; its absolute correctness is C01's subject",
    "queries whose evaluation legitimately raises QueryError are not generated",
]


def strategy(tier):
    return st.fixed_dictionaries({
        "hist": gen.history_s(max_txs=3, max_docs=8, min_txs=0),
        "queries": st.lists(gen.rewrite_query_s(max_leaves=7), min_size=10, max_size=10),
        "boost": st.sampled_from([0.5, 2.0, 3.0]),
    })


def _ident(q):
    return q


def and_triggers(q):
    """Structural triggers of the two recorded And.normalize() findings (pinned by the repository's own
    tests/test_queries.py::test_merge_ranges, hence not repairable under the task's rules):
      and_every_field_absorb - an And whose (normalized, flattened) clauses hold Every(f) and another clause on f
      and_range_merge        - an And holding two different overlapping TermRange clauses on one field"""
    trig = set()

    def visit(node):
        try:
            kids = list(node.children())
        except Exception:
            kids = []
        for c in kids:
            visit(c)
        if isinstance(node, wq.And):
            flat = []
            for c in node.subqueries:
                try:
                    n = c.normalize()
                except Exception:
                    continue
                if isinstance(n, wq.And):
                    flat.extend(n.subqueries)
                else:
                    flat.append(n)
            ev = set(k.fieldname for k in flat if isinstance(k, wq.Every) and k.fieldname is not None)
            for k in flat:
                if k is wq.NullQuery or isinstance(k, wq.Every):
                    continue
                try:
                    if k.field() in ev:
                        trig.add("and_every_field_absorb")
                except Exception:
                    pass
            rs = [k for k in flat if isinstance(k, wq.TermRange)]
            for i in range(len(rs)):
                for j in range(i + 1, len(rs)):
                    if rs[i].overlaps(rs[j]) and not (rs[i] == rs[j]):
                        trig.add("and_range_merge")

    visit(q)
    return trig


def _docs(s, q):
    return frozenset(s.docs_for_query(q))


def _pairs(qj):
    """sub-trees (a, b) to test the binary operators on: children of the first binary/compound node"""
    for x in walk(qj):
        if x["op"] in ("andnot", "andmaybe", "require"):
            return x["a"], x["b"]
        if x["op"] in ("and", "or", "dismax") and len(x["qs"]) >= 2:
            return x["qs"][0], x["qs"][1]
    return None


def _siblings(qj, limit=3):
    """copies of the tree that differ from it in exactly one matching-relevant parameter of one node (slop, ordered,
    mindist, limit, maxdist, prefix length, an excluded end): near-duplicates a compound must not merge"""
    import copy
    out = []
    nodes = list(walk(qj))
    for i, x in enumerate(nodes):
        muts = []
        op = x["op"]
        if op in ("phrase", "sequence", "span_near2", "span_near"):
            muts.append(("slop", x.get("slop", 1) + 1))
        if op in ("sequence", "span_near2", "span_near"):
            muts.append(("ordered", not x.get("ordered", True)))
        if op in ("span_near2", "span_near"):
            muts.append(("mindist", x.get("mindist", 1) + 1))
        if op == "span_first":
            muts.append(("limit", x.get("limit", 0) + 1))
        if op == "fuzzy":
            if x.get("maxdist", 1) < 2:
                muts.append(("maxdist", x.get("maxdist", 1) + 1))
            muts.append(("prefixlength", 0 if x.get("prefixlength", 1) else 1))
        if op in ("trange", "nrange", "drange"):
            muts.append(("se", not x.get("se")))
            muts.append(("ee", not x.get("ee")))
        for k, v in muts:
            c = copy.deepcopy(qj)
            list(walk(c))[i][k] = v
            if k == "slop" and "mindist" in x and v < x.get("mindist", 1):
                continue
            out.append(c)
            if len(out) >= limit:
                return out
    return out


_OTHER = {}


def _other_reader(generation):
    """a reader of an unrelated index that is at the given generation and has other words in its lexicon"""
    g = max(0, min(int(generation or 0), 6))
    if g not in _OTHER:
        from whoosh.filedb.filestore import RamStorage
        oix = RamStorage().create_index(corpus.build_schema({}))
        for i in range(g):
            w = oix.writer()
            w.add_document(k="o%d" % i, t=["a", "abz", "zz", "bq", "ca%d" % i], w=["x", "zz"], n=100 + i)
            w.commit(merge=False)
        _OTHER[g] = oix.reader()
    return _OTHER[g]


def run(case, out):
    ix, model = corpus.build(case["hist"], "ram", None, ref_eval, to_whoosh)
    ndocs = len(model.docs)
    s = ix.searcher()
    reader = s.reader()
    nt = []
    try:
        for qj in case["queries"]:
            q = to_whoosh(qj)
            try:
                base = _docs(s, q)
            except wq.QueryError:
                out.exclude("baseline_query_error")
                continue
            out.units += 1
            sh = shape(qj)

            def check(name, fn, arg=q, expect=None):
                exp = base if expect is None else expect
                before = repr(arg)
                try:
                    r = fn(arg)
                except Exception as e:  # normalize()/rewrites must not raise
                    out.fail("c15.raises:%s:%s" % (name, type(e).__name__), {"q": qj, "err": repr(e)})
                    return None
                if repr(arg) != before:
                    # a rewrite yields a query; it does not edit the one it was called on
                    out.fail("c15.rewrite_changed_its_receiver:%s" % name, {"q": qj, "before": before[:300], "after": repr(arg)[:300]})
                    return None
                try:
                    got = _docs(s, r)
                except Exception as e:
                    out.fail("c15.rewritten_unrunnable:%s:%s" % (name, type(e).__name__),
                             {"q": qj, "rewritten": repr(r), "err": repr(e)})
                    return r
                if got != exp:
                    trig = set()
                    if name in ("normalize", "normalize2", "simplify"):
                        trig = and_triggers(arg)
                        if name == "simplify":
                            try:
                                trig |= and_triggers(arg.simplify(reader))
                            except Exception:
                                pass
                    elif name in ("op_and", "and_sibling"):
                        trig = and_triggers(wq.And([arg[0], arg[1]]))
                    elif name == "or_sibling":
                        trig = and_triggers(wq.Or([arg[0], arg[1]]))
                    elif name == "op_sub":
                        trig = and_triggers(wq.And([arg[0], wq.Not(arg[1])]))
                    elif name == "op_or":
                        trig = and_triggers(wq.Or([arg[0], arg[1]]))
                    sig = "c15.meaning_changed:%s" % name
                    if trig:
                        sig = "c15.known_trigger:" + "+".join(sorted(trig))
                    out.fail(sig, {"q": qj, "rewrite": name, "rewritten": repr(r), "lost": sorted(exp - got),
                                   "gained": sorted(got - exp)})
                try:
                    changed = (r != arg)
                except Exception:
                    changed = True
                if changed and 0 < len(exp) < ndocs:
                    nt.append([name, sh, len(exp)])
                return r

            n1 = check("normalize", lambda x: x.normalize())
            if n1 is not None:
                n2 = check("normalize2", lambda x: x.normalize().normalize())
                if n2 is not None:
                    try:
                        # (== on empty compounds is falsy in whoosh, so fall back on the repr)
                        same = bool(n1 is n2 or n1 == n2 or repr(n1) == repr(n2))
                    except Exception as e:
                        same = False
                    if not same:
                        out.fail("c15.normalize_not_idempotent", {"q": qj, "n1": repr(n1), "n2": repr(n2)})
            check("with_boost", lambda x: x.with_boost(case["boost"]))
            check("replace_absent", lambda x: x.replace("t", "zzz_absent", "new"))
            # replacing a text that IS present changes the meaning, but still must not edit the receiver
            for node in [n for n in walk(qj) if n["op"] in ("term", "phrase") and (n.get("x") or n.get("words"))][:3]:
                present = node.get("x") or node["words"][0]
                before = repr(q)
                try:
                    q.replace(node["f"], present, "zz_new")
                except Exception as e:
                    out.fail("c15.raises:replace_present:%s" % type(e).__name__, {"q": qj, "err": repr(e)})
                    break
                if repr(q) != before:
                    out.fail("c15.rewrite_changed_its_receiver:replace_present",
                             {"q": qj, "before": before[:300], "after": repr(q)[:300]})
                    q = to_whoosh(qj)
                    break
            # absent as a (field, text) pair although the same text occurs in another field of the query
            for fname, other in (("t", "w"), ("w", "t")):
                def mentions(m, tx):
                    return m.get("f") == fname and (m.get("x") == tx or tx in (m.get("words") or []))
                texts = sorted(set(n["x"] for n in walk(qj) if n["op"] == "term" and n.get("f") == other
                                   and not any(mentions(m, n["x"]) for m in walk(qj))))
                for tx in texts[:2]:
                    check("replace_absent_in_that_field", lambda x, fname=fname, tx=tx: x.replace(fname, tx, "new"))
            check("apply_identity", lambda x: x.apply(_ident))
            check("accept_identity", lambda x: x.accept(_ident))
            check("copy", copy.copy)
            check("deepcopy", copy.deepcopy)
            check("pickle", lambda x: pickle.loads(pickle.dumps(x, 2)))
            ambiguous = False
            for x in walk(qj):
                if x["op"] == "fuzzy":
                    lo, hi = ref_eval(x, model.live())
                    ambiguous = ambiguous or lo != hi
            if not ambiguous:
                # the same query object has been simplified against another index (same generation, other words)
                # before: what it yields for this reader must not depend on that
                try:
                    q.simplify(_other_reader(reader.generation()))
                except Exception:
                    pass
                check("simplify", lambda x: x.simplify(reader))
            else:
                # FuzzyTerm on a transposition: per-segment automaton (Levenshtein) vs multi-segment
                # brute force (Damerau) disagree - recorded under C19, not re-reported here
                out.exclude("simplify_skipped_fuzzy_variant_ambiguous")
            pr = _pairs(qj)
            if pr:
                a, b = to_whoosh(pr[0]), to_whoosh(pr[1])
                try:
                    da, db = _docs(s, a), _docs(s, b)
                except wq.QueryError:
                    da = None
                if da is not None:
                    check("op_and", lambda x: x[0] & x[1], (a, b), da & db)
                    check("op_or", lambda x: x[0] | x[1], (a, b), da | db)
                    check("op_sub", lambda x: x[0] - x[1], (a, b), da - db)
            # a compound over two queries that differ in one parameter only: normalize() merges duplicates, and
            # near-duplicates must not count as such
            for sj in _siblings(qj):
                try:
                    sq = to_whoosh(sj)
                    ds = _docs(s, sq)
                except wq.QueryError:
                    continue
                if ds != base:
                    out.label("sibling_with_other_result")
                check("and_sibling", lambda x: wq.And([x[0], x[1]]).normalize(), (q, sq), base & ds)
                check("or_sibling", lambda x: wq.Or([x[0], x[1]]).normalize(), (q, sq), base | ds)
            try:
                est = q.estimate_size(reader)
                if est < len(base):
                    out.fail("c15.estimate_size_below_count", {"q": qj, "estimate": est, "count": len(base)})
            except Exception as e:
                out.fail("c15.estimate_size_raises:%s" % type(e).__name__, {"q": qj, "err": repr(e)})
            for o in set(x["op"] for x in walk(qj)):
                out.label("op_" + o)
    finally:
        s.close()
        ix.close()
    out.nontrivial = bool(nt)
    out.key = nt
    out.label("docs_0" if ndocs == 0 else ("docs_1" if ndocs == 1 else "docs_many"))


SUBS = {
    "rewrite": Sub(run, strategy, quick=150, thorough=2000, quick_shards=8),
}
