"""C05 - limiting a search to the top N never changes which hits win or their scores."""
from hypothesis import strategies as st

from whoosh import scoring
from whoosh import query as wq

from wv.runner import Sub
from wv import corpus, gen
from wv.refquery import ref_eval, to_whoosh, shape, walk
from wv.props.c09 import make_weighting

PROP = "C05"
LEVEL = "exploration"
RULE = ("Each case = a corpus of 20-90 documents over a skewed 8-word vocabulary (so posting lists are long), split "
        "into 1-4 segments with posting block limit 1/2/4/8 (every list spans many blocks), optional deletions left "
        "in place, document/field boosts; 4 generated scored query trees (Term, And, Or with 2 and >=3 clauses, AndNot, "
        "AndMaybe, Require, DisjunctionMax, Phrase, ranges, boosts); one weighting (BM25F variants, TF_IDF, Frequency, "
        "PL2, DFree, MultiWeighting, FunctionWeighting). For k in {1,2,3,5,10,|hits|-1} the list [(doc, score)] of "
        "search(q, limit=k) - plain, with terms=True, with a filter, with a mask and collapsed on a field (best 1 / 2 per key) - must equal the first k entries of "
        "search(q, limit=None) (descending score, ascending document number on ties; score tolerance 1e-9, boundary "
        "ties broken by document number). Non-trivial = the limited run actually skipped blocks or replaced the matcher "
        "against a positive minimum score and k < number of hits; distinct by SHA-1 of (weighting kind, query shape, k, "
        "layout). binaryroots: the same oracle on the shapes whose quality skipping has to re-align two sides (and-not, and + not, and-maybe, require, three-way and over frequent terms), 1-2 segments of 15-45 documents, posting blocks of 1-4 entries.")
ASSUMPTIONS = [
    "the exhaustive search (limit=None) is the reference ranking; its own set/score correctness is C01/C09",
    "k < doc_count (otherwise whoosh uses the exhaustive collector for limited searches too)",
]

VOC = ["a", "b", "ab", "abc", "ba", "c", "aa", "bb"]
# skewed: index drawn from this list
SKEW = [0, 0, 0, 0, 1, 1, 1, 2, 2, 3, 3, 4, 5, 6, 7]


def docs_s():
    tok = st.sampled_from(SKEW)
    doc = st.tuples(st.lists(tok, min_size=1, max_size=10), st.sampled_from([1.0, 1.0, 1.0, 0.5, 2.0, 3.0]),
                    st.integers(-20, 20), st.sampled_from(["g1", "g2", "g3"]))
    return st.lists(doc, min_size=5, max_size=30)


def weighting_s():
    bm = st.builds(lambda B, K1, tB: {"kind": "bm25f", "B": B, "K1": K1, "t_B": tB},
                   st.sampled_from([0.75, 0.0, 1.0]), st.sampled_from([1.2, 0.5, 2.0]),
                   st.sampled_from([None, None, 0.0, 1.0]))
    return st.one_of(bm, bm, bm, st.just({"kind": "tfidf"}), st.just({"kind": "tfidf"}),
                     st.just({"kind": "frequency"}), st.just({"kind": "frequency"}),
                     st.builds(lambda c: {"kind": "pl2", "c": c}, st.sampled_from([1.0, 7.0])),
                     st.just({"kind": "dfree"}), st.just({"kind": "multi"}), st.just({"kind": "function"}))


def query_s():
    word = st.sampled_from(VOC[:6])
    term = st.builds(lambda x, b: {"op": "term", "f": "t", "x": x, "boost": b}, word, gen.boost_s)
    leaf = st.one_of(
        term, term, term,
        st.builds(lambda ws, sl: {"op": "phrase", "f": "t", "words": ws, "slop": sl},
                  st.lists(word, min_size=2, max_size=3), st.sampled_from([1, 2])),
        st.builds(lambda x, c: {"op": "prefix", "f": "t", "x": x, "cs": c}, st.sampled_from(["a", "ab", "b"]), st.booleans()),
        st.builds(lambda s, e, c: {"op": "nrange", "f": "n", "start": s, "end": e, "se": False, "ee": False, "cs": c},
                  st.integers(-20, 0), st.integers(0, 20), st.booleans()),
        st.builds(lambda x: {"op": "term", "f": "g", "x": x, "boost": 1.0}, st.sampled_from(["g1", "g2"])),
    )

    def extend(ch):
        l2 = st.lists(ch, min_size=2, max_size=2)
        l3 = st.lists(ch, min_size=3, max_size=5)
        return st.one_of(
            st.builds(lambda qs, b: {"op": "and", "qs": qs, "boost": b}, l2, gen.boost_s),
            st.builds(lambda qs, b: {"op": "or", "qs": qs, "boost": b}, l2, gen.boost_s),
            st.builds(lambda qs, b: {"op": "or", "qs": qs, "boost": b}, l3, gen.boost_s),
            st.builds(lambda qs, tb: {"op": "dismax", "qs": qs, "tiebreak": tb}, st.one_of(l2, l3), st.sampled_from([0.0, 0.0, 0.4])),
            st.builds(lambda a, b: {"op": "andnot", "a": a, "b": b}, ch, ch),
            st.builds(lambda a, b: {"op": "andmaybe", "a": a, "b": b}, ch, ch),
            st.builds(lambda a, b: {"op": "require", "a": a, "b": b}, ch, ch),
            st.builds(lambda a, b: {"op": "and", "qs": [a, {"op": "not", "q": b}], "boost": 1.0}, ch, ch),
        )
    return st.recursive(leaf, extend, max_leaves=6)


def strategy(tier):
    return st.fixed_dictionaries({
        "segments": st.lists(docs_s(), min_size=1, max_size=4),
        "blocklimit": st.sampled_from([1, 2, 2, 4, 4, 8]),
        # short posting lists inlined into the term dictionary are served by another matcher class
        "inlinelimit": st.sampled_from([1, 1, 3, 6]),
        "delete": st.lists(st.integers(0, 200), max_size=8),
        "optimize": st.sampled_from([False, False, False, True]),
        "schema": st.fixed_dictionaries({"t_boost": st.sampled_from([1.0, 2.0, 1.1, 0.3])}),
        "queries": st.lists(query_s(), min_size=4, max_size=4),
        "weighting": weighting_s(),
    })


def strategy_binary(tier):
    """the same check on the shapes whose quality skipping has to re-align two sides: and-not, and + not, and-maybe,
    require over frequent terms, few long segments, tiny posting blocks"""
    word = st.sampled_from(VOC[:4])
    term = st.builds(lambda x, b: {"op": "term", "f": "t", "x": x, "boost": b}, word, gen.boost_s)
    side = st.one_of(term, term, st.builds(lambda a, b: {"op": "or", "qs": [a, b], "boost": 1.0}, term, term))
    q = st.one_of(
        st.builds(lambda a, b: {"op": "andnot", "a": a, "b": b}, side, term),
        st.builds(lambda a, b: {"op": "and", "qs": [a, {"op": "not", "q": b}], "boost": 1.0}, side, term),
        st.builds(lambda a, b: {"op": "andmaybe", "a": a, "b": b}, side, side),
        st.builds(lambda a, b: {"op": "require", "a": a, "b": b}, side, term),
        st.builds(lambda a, b, c: {"op": "and", "qs": [a, b, c], "boost": 1.0}, term, term, side),
    )
    tok = st.sampled_from(SKEW)
    doc = st.tuples(st.lists(tok, min_size=1, max_size=10), st.sampled_from([1.0, 1.0, 0.5, 2.0]),
                    st.integers(-20, 20), st.sampled_from(["g1", "g2", "g3"]))
    return st.fixed_dictionaries({
        "segments": st.lists(st.lists(doc, min_size=15, max_size=45), min_size=1, max_size=2),
        "blocklimit": st.sampled_from([1, 2, 2, 3, 4]),
        "delete": st.lists(st.integers(0, 200), max_size=4),
        "optimize": st.just(False),
        "schema": st.fixed_dictionaries({"t_boost": st.just(1.0)}),
        "queries": st.lists(q, min_size=4, max_size=4),
        "weighting": st.one_of(st.just({"kind": "bm25f", "B": 0.75, "K1": 1.2, "t_B": None}), st.just({"kind": "tfidf"}),
                               st.just({"kind": "frequency"})),
    })


def build(case):
    txs = []
    n = 0
    keys = []
    for seg in case["segments"]:
        ops = []
        for toks, boost, num, g in seg:
            k = "k%d" % n
            n += 1
            keys.append(k)
            ops.append(["add", {"k": k, "t": [VOC[i] for i in toks], "w": [], "n": num, "d": None, "g": g, "boost": boost}])
        txs.append({"ops": ops, "end": "commit", "merge": False, "optimize": False, "blocklimit": case["blocklimit"],
                    "inlinelimit": case.get("inlinelimit", 1)})
    dels = sorted(set(keys[i % len(keys)] for i in case["delete"]))
    if dels:
        txs.append({"ops": [["delk", k] for k in dels], "end": "commit", "merge": False, "optimize": False,
                    "blocklimit": case["blocklimit"],
                    "inlinelimit": case.get("inlinelimit", 1)})
    if case["optimize"]:
        txs.append({"ops": [], "end": "commit", "merge": True, "optimize": True, "blocklimit": case["blocklimit"],
                    "inlinelimit": case.get("inlinelimit", 1)})
    return corpus.build({"schema": case["schema"], "txs": txs}, "ram", None, ref_eval, to_whoosh)


def close(a, b, tol=1e-9):
    return abs(a - b) <= tol * max(1.0, abs(a), abs(b))


def _wrapped_ops(inlined):
    # queries whose boost > 1 is applied by a WrappingMatcher: compounds, and - when short posting lists are inlined
    # into the term dictionary - also plain terms (their ListMatcher is wrapped instead of getting a boosted scorer)
    return ("and", "or", "dismax", "term") if inlined else ("and", "or", "dismax")


def strip_big_boosts(qj, inlined=False):
    import copy
    q = copy.deepcopy(qj)
    for x in walk(q):
        if x.get("boost", 1.0) > 1.0 and x["op"] in _wrapped_ops(inlined):
            x["boost"] = 1.0
    return q


def topk_ok(s, qj, k, kw):
    q = to_whoosh(qj)
    ref = [(h.docnum, h.score) for h in s.search(q, limit=None, **kw)]
    got = [(h.docnum, h.score) for h in s.search(q, limit=k, **kw)]
    exp = ref[:k]
    return len(got) == len(exp) and all(a[0] == b[0] and close(a[1], b[1]) for a, b in zip(got, exp))


def run(case, out):
    ix, model = build(case)
    nseg, ndel = corpus.layout_signature(ix)
    wcfg = case["weighting"]
    inlined = case.get("inlinelimit", 1) > 1
    s = ix.searcher(weighting=make_weighting(wcfg))
    nt = []
    engaged = 0
    total = 0
    try:
        ndocs = s.doc_count()
        for qj in case["queries"]:
            q = to_whoosh(qj)
            try:
                full = [(h.docnum, h.score) for h in s.search(q, limit=None)]
            except (ValueError, ZeroDivisionError, OverflowError):
                if wcfg["kind"] in ("pl2", "dfree"):
                    out.exclude("formula_domain_error")
                    continue
                raise
            # the exhaustive ranking itself: descending score, ascending docnum on ties
            for (d1, s1), (d2, s2) in zip(full, full[1:]):
                if s1 < s2 or (s1 == s2 and d1 > d2):
                    out.fail("c05.exhaustive_ranking_unordered", {"q": qj, "pair": [[d1, s1], [d2, s2]]})
                    break
            if len(full) < 2:
                continue
            variants = [("plain", {}), ("terms", {"terms": True}),
                        ("filter", {"filter": wq.Term("g", "g1")}), ("mask", {"mask": wq.Term("g", "g2")}),
                        ("collapse1", {"collapse": "g", "collapse_limit": 1}),
                        ("collapse2", {"collapse": "g", "collapse_limit": 2})]
            refs = {}
            for k in sorted(set([1, 2, 3, 5, 10, len(full) - 1])):
                if k >= ndocs or k < 1:
                    continue
                for vname, kw in variants:
                    if vname not in refs:
                        refs[vname] = full if vname == "plain" else \
                            [(h.docnum, h.score) for h in s.search(q, limit=None, **kw)]
                        if vname == "terms":
                            # recording terms must not change the result: same documents, same scores (the
                            # matcher family differs, so sums may be re-associated: tolerance, order by tolerance)
                            fs, ts = dict(full), dict(refs[vname])
                            if set(fs) != set(ts) or any(not close(fs[d_], ts[d_]) for d_ in fs):
                                out.fail("c05.terms_recording_changes_ranking",
                                         {"q": qj, "plain": full[:10], "terms": refs[vname][:10], "weighting": wcfg})
                    ref = refs[vname]
                    r = s.search(q, limit=k, **kw)
                    got = [(h.docnum, h.score) for h in r]
                    total += 1
                    exp = ref[:k]
                    ok = len(got) == len(exp)
                    if ok:
                        for (gd, gs), (ed, es) in zip(got, exp):
                            if gd != ed or not close(gs, es):
                                ok = False
                                break
                    if not ok:
                        # tolerate pure float-noise reorderings among (near-)equal scores: at every rank the
                        # score must agree, and a different document at a rank must itself have that same
                        # score (within tolerance) in the exhaustive ranking - i.e. a tie up to re-association
                        refscore = dict(ref)
                        same_docs = sorted(d for d, _ in got) == sorted(d for d, _ in exp)
                        scores_ok = len(got) == len(exp) and all(close(a[1], b[1]) for a, b in zip(got, exp))
                        tie_ok = scores_ok and all(a[0] == b[0] or (a[0] in refscore and close(refscore[a[0]], b[1])
                                                                     and a[1] != b[1])
                                                   for a, b in zip(got, exp))
                        if tie_ok:
                            out.exclude("float_noise_tie_reordering")
                        elif any(x.get("boost", 1.0) > 1.0 and x["op"] in _wrapped_ops(inlined) for x in walk(qj)) \
                                and topk_ok(s, strip_big_boosts(qj, inlined), k, kw):
                            # recorded finding: WrappingMatcher.replace() does not divide the threshold by
                            # the boost (pinned by tests/test_quality.py::test_replacements). Attributed only
                            # when the same query without the >1 compound boosts passes for the same k/variant.
                            out.fail("c05.known_trigger:compound_boost_gt1",
                                     {"q": qj, "k": k, "variant": vname, "got": got[:12], "expected": exp[:12],
                                      "weighting": wcfg})
                        else:
                            kind = "missing_hit" if not same_docs else ("order" if scores_ok else "score")
                            out.fail("c05.topk_differs:%s:%s" % (vname, kind),
                                     {"q": qj, "k": k, "got": got[:12], "expected": exp[:12], "weighting": wcfg,
                                      "root": qj["op"]})
                    c = getattr(r, "collector", None)
                    while c is not None and not hasattr(c, "skipped_times") and hasattr(c, "child"):
                        c = c.child
                    if c is not None and (getattr(c, "skipped_times", 0) > 0 or getattr(c, "_inexact_count", False)) \
                            and k < len(ref):
                        engaged += 1
                        nt.append([wcfg["kind"], shape(qj), k, nseg, ndel > 0, vname])
            for o in set(x["op"] for x in walk(qj)):
                out.label("op_" + o)
    finally:
        s.close()
        ix.close()
    out.units = total
    out.nontrivial = bool(nt)
    out.key = nt
    out.label("w_" + wcfg["kind"], "segments_%d" % min(nseg, 4), "deleted_present" if ndel else "no_deleted")
    if total:
        out.label("quality_path_engaged" if engaged else "quality_path_not_engaged")


SUBS = {
    "topk": Sub(run, strategy, quick=80, thorough=500, quick_shards=8),
    "binaryroots": Sub(run, strategy_binary, quick=60, thorough=600, quick_shards=8),
}
