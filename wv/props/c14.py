"""C14 - sorting, grouping, collapsing, filtering and paging are exact views of the results."""
import datetime

from hypothesis import strategies as st

from whoosh import fields, query, sorting
from whoosh.filedb.filestore import RamStorage

from wv.runner import Sub

PROP = "C14"
LEVEL = "exploration"
RULE = ("Each case = a generated corpus (5-40 documents in 1-4 segments, optional deletions, an optional leading "
        "segment written before the sort fields had any value) whose documents carry - each optionally missing - a text "
        "key, a number, a date, a boolean, a stored-only value, a multi-valued keyword field and a tag; every sort field "
        "exists twice, with and without a column. Requests: sortedby each field (column twin and posting twin) ascending, "
        "with a reversed facet and with the global reverse flag; multi-key sorts with mixed directions; ScoreFacet; "
        "groupedby FieldFacet / QueryFacet / RangeFacet / overlapping keyword facet / StoredFieldFacet; collapse on the "
        "tag with limit 1-2; filter and mask given as query, Results and set; limits and search_page. Oracle = Python "
        "sorted()/set algebra over the document model with document order (read from the index) on ties: the order is "
        "exact, twins agree, reverse is the exact reverse, groups partition exactly the matched documents, collapsing "
        "keeps the best N per key and counts the rest, filter/mask restrict without reordering, a page is the slice, "
        "len(results) is the match count for every limit. Non-trivial = >=2 segments with a tie and a missing value; "
        "distinct by SHA-1 of the case.")
ASSUMPTIONS = [
    "documents with a missing sort value sort to the end (docs/source/facets.rst, 'Missing values'); checked as its own "
    "sub-signature",
    "text sort keys are single-term ID values compared as UTF-8 bytes",
]

TEXTS = ["a", "b", "ab", "ba", "é", "z", "aa"]
BASE = datetime.datetime(2005, 5, 5)


def doc_s():
    return st.fixed_dictionaries({
        "tx": st.one_of(st.none(), st.sampled_from(TEXTS), st.sampled_from(TEXTS[:3])),
        "nm": st.one_of(st.none(), st.integers(-5, 5), st.integers(-5, 5)),
        "dt": st.one_of(st.none(), st.integers(0, 6)),
        "bl": st.one_of(st.none(), st.booleans()),
        "kw": st.lists(st.sampled_from(["x", "y", "z"]), max_size=3, unique=True),
        "tag": st.sampled_from(["t1", "t2", "t3"]),
        "body": st.lists(st.sampled_from(["w", "w", "v", "u"]), min_size=1, max_size=4),
    })


def strategy(tier):
    return st.fixed_dictionaries({
        "segments": st.lists(st.lists(doc_s(), min_size=1, max_size=10), min_size=1, max_size=4),
        "bare_first": st.booleans(),
        "retrofit": st.sampled_from([False, False, True]),
        "delete_tail": st.booleans(),
        "delete": st.lists(st.integers(0, 60), max_size=4),
        "q": st.sampled_from(["every", "w", "w_or_v", "u", "or3", "w_and_v"]),
        "limits": st.lists(st.integers(1, 12), min_size=2, max_size=3),
        "page": st.tuples(st.integers(1, 5), st.integers(1, 6)).map(list),
    })


def schema():
    return fields.Schema(
        k=fields.ID(stored=True),
        tx=fields.ID(sortable=True), tx2=fields.ID,
        nm=fields.NUMERIC(int, sortable=True), nm2=fields.NUMERIC(int),
        dt=fields.DATETIME(sortable=True), dt2=fields.DATETIME,
        bl=fields.BOOLEAN, st=fields.STORED,
        kw=fields.KEYWORD, tag=fields.ID(stored=True, sortable=True),
        body=fields.TEXT,
    )


def build(case):
    ix = RamStorage().create_index(schema())
    docs = []
    n = 0
    if case["bare_first"]:
        w = ix.writer()
        for _ in range(2):
            d = {"k": "k%d" % n, "tag": "t1", "body": ["w"], "tx": None, "nm": None, "dt": None, "bl": None, "kw": []}
            w.add_document(k=d["k"], tag=d["tag"], body=list(d["body"]))
            docs.append(d)
            n += 1
        w.commit(merge=False)
    for seg in case["segments"]:
        w = ix.writer()
        for d0 in seg:
            d = dict(d0)
            d["k"] = "k%d" % n
            n += 1
            kw = {"k": d["k"], "tag": d["tag"], "body": list(d["body"])}
            if d["tx"] is not None:
                kw["tx"] = kw["tx2"] = d["tx"]
                kw["st"] = d["tx"]
            if d["nm"] is not None:
                kw["nm"] = kw["nm2"] = d["nm"]
            if d["dt"] is not None:
                kw["dt"] = kw["dt2"] = BASE + datetime.timedelta(days=d["dt"])
            if d["bl"] is not None:
                kw["bl"] = d["bl"]
            if d["kw"]:
                kw["kw"] = list(d["kw"])
            w.add_document(**kw)
            docs.append(d)
        w.commit(merge=False)
    dels = sorted(set(docs[i % len(docs)]["k"] for i in case["delete"]))
    if case.get("delete_tail") and len(docs) > 1:
        dels = sorted(set(dels) | set([docs[-1]["k"]]))
    if dels and len(dels) < len(docs):
        w = ix.writer()
        for k in dels:
            w.delete_by_term("k", k)
        w.commit(merge=False)
        docs = [d for d in docs if d["k"] not in dels]
    if case.get("retrofit"):
        # the posting-only twin gets its columns after the fact (sorting.add_sortable), on the segments as they are -
        # deleted documents included
        w = ix.writer()
        sorting.add_sortable(w, "tx2", sorting.FieldFacet("tx2"))
        w.commit(merge=False)
    return ix, docs


def make_query(name):
    if name == "every":
        return query.Every()
    if name == "w":
        return query.Term("body", "w")
    if name == "u":
        return query.Term("body", "u")
    if name == "or3":
        return query.Or([query.Term("body", "w"), query.Term("body", "v"), query.Term("body", "u")])
    if name == "w_and_v":
        return query.And([query.Term("body", "w"), query.Term("body", "v")])
    return query.Or([query.Term("body", "w"), query.Term("body", "v")])


def matches(name, d):
    if name == "every":
        return True
    if name == "w":
        return "w" in d["body"]
    if name == "u":
        return "u" in d["body"]
    if name == "or3":
        return "w" in d["body"] or "v" in d["body"] or "u" in d["body"]
    if name == "w_and_v":
        return "w" in d["body"] and "v" in d["body"]
    return "w" in d["body"] or "v" in d["body"]


def sort_value(field, d):
    v = d[field.rstrip("2")]
    if v is None:
        return None
    if field.startswith("tx"):
        return v.encode("utf8")
    return v


def expected_order(docs, docnum, keys):
    """keys = [(field, reverse)]; missing values always last; ties by document order"""
    def keyfn(d):
        out = []
        for f, rev in keys:
            v = sort_value(f, d)
            if v is None:
                out.append((1, 0))
            else:
                if rev:
                    if isinstance(v, bytes):
                        v = tuple(-b for b in v) + (1,)  # descending bytes order, shorter prefix last
                    else:
                        v = -v
                elif isinstance(v, bytes):
                    v = tuple(v) + (-1,)
                out.append((0, v))
        out.append(docnum[d["k"]])
        return tuple(out)
    return [d["k"] for d in sorted(docs, key=keyfn)]


def ties_and_missing(docs, f):
    vals = [sort_value(f, d) for d in docs]
    present = [v for v in vals if v is not None]
    return len(present) != len(set(present)) and len(present) != len(vals)


def run(case, out):
    ix, alldocs = build(case)
    qname = case["q"]
    q = make_query(qname)
    with ix.searcher() as s:
        docnum = dict((sf["k"], dn) for dn, sf in s.reader().iter_docs())
        docs = [d for d in alldocs if matches(qname, d)]
        mkeys = set(d["k"] for d in docs)
        nseg = len(s.reader().leaf_readers())

        def keys_of(results):
            return [h["k"] for h in results]

        # --- len(results) for every limit, hits subset, unlimited = all matches
        full = s.search(q, limit=None)
        if set(keys_of(full)) != mkeys or len(full) != len(mkeys):
            out.fail("c14.unlimited_result_wrong", {"got": len(full), "expected": len(mkeys)})
            return
        for lim in case["limits"]:
            r = s.search(q, limit=lim)
            if len(r) != len(mkeys):
                out.fail("c14.len_depends_on_limit", {"limit": lim, "len": len(r), "expected": len(mkeys)})
            if keys_of(r) != keys_of(full)[:lim]:
                out.fail("c14.limited_scored_hits_not_prefix", {"limit": lim})
        # --- single-key sorts: column twin, posting twin, facet reverse, global reverse
        def split(ks, col):
            byk = dict((d["k"], d) for d in docs)
            pres = [k for k in ks if sort_value(col, byk[k]) is not None]
            miss = [k for k in ks if sort_value(col, byk[k]) is None]
            where = "none"
            if miss:
                idx = [i for i, k in enumerate(ks) if sort_value(col, byk[k]) is None]
                if idx == list(range(len(ks) - len(miss), len(ks))):
                    where = "end"
                elif idx == list(range(len(miss))):
                    where = "start"
                else:
                    where = "scattered"
            return pres, miss, where

        for col, twin in (("tx", "tx2"), ("nm", "nm2"), ("dt", "dt2")):
            exp_pres = split(expected_order(docs, docnum, [(col, False)]), col)[0]
            exp_pres_rev = split(expected_order(docs, docnum, [(col, True)]), col)[0]
            exp_miss = sorted((d["k"] for d in docs if sort_value(col, d) is None), key=lambda k: docnum[k])
            where_seen = {}
            asc_result = {}
            for f in (col, twin):
                kind_f = "column" if f == col else "postings"
                for direction, kwargs, want in (("asc", {"sortedby": f}, exp_pres),
                                                ("rev", {"sortedby": sorting.FieldFacet(f, reverse=True)}, exp_pres_rev)):
                    got = keys_of(s.search(q, limit=None, **kwargs))
                    pres, miss, where = split(got, col)
                    if sorted(got) != sorted(mkeys) or pres != want:
                        out.fail("c14.sortedby:%s:%s:order" % (kind_f, direction),
                                 {"field": f, "got": got[:12], "expected_present_order": want[:12], "segments": nseg})
                        return
                    if where == "scattered" or miss != exp_miss:
                        out.fail("c14.sortedby:%s:%s:missing_block" % (kind_f, direction),
                                 {"field": f, "got": got[:12], "missing_expected_in_doc_order": exp_miss[:8]})
                        return
                    where_seen[(direction, kind_f)] = where
                    if direction == "rev":
                        # a reversed sort must leave nothing behind: the ascending sort still gives what it gave
                        again = keys_of(s.search(q, limit=None, sortedby=f))
                        if again != asc_result.get(f):
                            out.fail("c14.sort_changed_after_reversed_sort:%s" % kind_f,
                                     {"field": f, "first": (asc_result.get(f) or [])[:12], "again": again[:12]})
                            return
                    if direction == "asc":
                        asc_result[f] = got
                        fwd = got
                        gotg = keys_of(s.search(q, limit=None, sortedby=f, reverse=True))
                        if gotg != list(reversed(fwd)):
                            out.fail("c14.global_reverse_not_exact_reverse:%s" % kind_f,
                                     {"field": f, "forward": fwd[:12], "reversed": gotg[:12]})
                            return
                        for lim in case["limits"][:1]:
                            gl = keys_of(s.search(q, limit=lim, sortedby=f))
                            if gl != fwd[:lim]:
                                out.fail("c14.sorted_limit_not_prefix", {"field": f, "limit": lim, "got": gl, "expected": fwd[:lim]})
                                return
            # documents without a value: facets.rst says "always sort to the end"; whatever end is used, the column
            # and the posting implementation of one request must agree (the property: "whether or not the field has
            # a column")
            for direction in ("asc", "rev"):
                a, b = where_seen.get((direction, "column")), where_seen.get((direction, "postings"))
                if a != "none" and b != "none" and a != b:
                    out.fail("c14.known:missing_values_position_column_vs_postings:%s:%s" % (col, direction),
                             {"column": a, "postings": b})
                if direction == "asc" and "start" in (a, b) and a == b:
                    if case.get("retrofit") and col == "tx":
                        # the posting-only twin was given columns by add_sortable: both requests now take the column
                        # path, whose placement of missing values is the recorded finding
                        out.fail("c14.known:missing_values_position_column_vs_postings:%s:%s" % (col, direction),
                                 {"column": a, "postings": b, "retrofit": True})
                    else:
                        out.fail("c14.missing_values_not_at_end:%s" % col, {"column": a, "postings": b})
        # --- multi-key with mixed directions
        mf = sorting.MultiFacet([sorting.FieldFacet("tag"), sorting.FieldFacet("nm", reverse=True), sorting.FieldFacet("tx")])
        got = keys_of(s.search(q, limit=None, sortedby=mf))

        def mk(d, nm_missing, tx_missing):
            nmv = d["nm"]
            txv = d["tx"]
            return (d["tag"].encode(), (nm_missing, 0) if nmv is None else (0, -nmv),
                    (tx_missing, ()) if txv is None else (0, tuple(txv.encode("utf8")) + (-1,)), docnum[d["k"]])
        # the position of documents without a value is not fixed by the property (see above): any consistent choice
        cands = [[d["k"] for d in sorted(docs, key=lambda d: mk(d, a, b))] for a in (1, -1) for b in (1, -1)]
        if got not in cands:
            out.fail("c14.multikey_sort", {"got": got[:12], "expected_one_of": [c[:12] for c in cands[:2]]})
            return
        # --- the score as a sort key next to field keys: (tag, best score first) and (best score first, tag reversed).
        # Scores that differ only in the last bits (the sorted search adds the clauses up in another order than the
        # scored one) count as ties, and the order inside a tie is not asserted.
        score_of = dict((h["k"], h.score) for h in full)
        byk = dict((d["k"], d) for d in docs)

        def same(x, y):
            return abs(x - y) <= 1e-9 * max(1.0, abs(x), abs(y))

        def ordered(keys, keyfn):
            """keyfn(k) -> tuple of components; floats compared with tolerance"""
            for a_, b_ in zip(keys, keys[1:]):
                for x, y in zip(keyfn(a_), keyfn(b_)):
                    if isinstance(x, float):
                        if same(x, y):
                            break   # a tie up to rounding: the keys after it decide nothing that can be asserted
                        if x < y:
                            break
                        return (a_, b_)
                    if x == y:
                        continue
                    if x < y:
                        break
                    return (a_, b_)
            return None

        for name, facets, keyfn in (
                ("tag_then_score", [sorting.FieldFacet("tag"), sorting.ScoreFacet()],
                 lambda k: (byk[k]["tag"].encode(), -score_of[k])),
                ("score_then_tag", [sorting.ScoreFacet(), sorting.FieldFacet("tag", reverse=True)],
                 lambda k: (-score_of[k], tuple(-b for b in byk[k]["tag"].encode()) + (1,)))):
            got = keys_of(s.search(q, limit=None, sortedby=sorting.MultiFacet(facets)))
            if sorted(got) != sorted(mkeys):
                out.fail("c14.multikey_sort_with_score:%s:members" % name, {"got": len(got), "expected": len(mkeys)})
                return
            wrong = ordered(got, keyfn)
            if wrong:
                out.fail("c14.multikey_sort_with_score:%s" % name,
                         {"out_of_order": [(k, byk[k]["tag"], score_of[k]) for k in wrong], "q": qname})
                return
        out.label("score_ties" if len(set(score_of.values())) < len(score_of) else "scores_distinct")
        # --- grouping
        r = s.search(q, limit=None, groupedby={"tag": sorting.FieldFacet("tag"), "tx": sorting.FieldFacet("tx"),
                                               "tx2": sorting.FieldFacet("tx2"), "st": sorting.StoredFieldFacet("st"),
                                               "kw": sorting.FieldFacet("kw", allow_overlap=True),
                                               "qf": sorting.QueryFacet({"hasw": query.Term("body", "w"),
                                                                         "hasu": query.Term("body", "u")}),
                                               "rf": sorting.RangeFacet("nm", -5, 4, 3),
                                               # overlapping facet on a numeric field without a column (postings only)
                                               "nmov": sorting.FieldFacet("nm2", allow_overlap=True)})
        k_of = dict((dn, k) for k, dn in docnum.items())

        def group_keys(name):
            return dict((gk, sorted(k_of[dn] for dn in dns)) for gk, dns in r.groups(name).items())

        def check_partition(name, model_groups):
            got = group_keys(name)
            exp = dict((gk, sorted(v)) for gk, v in model_groups.items() if v)
            if got != exp:
                out.fail("c14.groups:%s" % name, {"got": str(got)[:300], "expected": str(exp)[:300]})
                return False
            return True

        tagg = {}
        for d in docs:
            tagg.setdefault(d["tag"], []).append(d["k"])
        if not check_partition("tag", tagg):
            return
        for name in ("tx", "tx2", "st"):
            g = {}
            for d in docs:
                g.setdefault(d["tx"], []).append(d["k"])
            got = group_keys(name)
            # missing documents appear under the key None (docs) - a column-backed facet may use the column default ''
            norm = {}
            for gk, v in got.items():
                norm.setdefault(None if gk in (None, "", b"") else (gk.decode("utf8") if isinstance(gk, bytes) else gk), []).extend(v)
            norm = dict((gk, sorted(v)) for gk, v in norm.items())
            exp = dict((gk, sorted(v)) for gk, v in g.items())
            if norm != exp:
                out.fail("c14.groups:%s" % name, {"got": str(norm)[:300], "expected": str(exp)[:300]})
                return
        nmg = {}
        for d in docs:
            nmg.setdefault(d["nm"], []).append(d["k"])
        if not check_partition("nmov", nmg):
            return
        kwg = {}
        for d in docs:
            for v in (d["kw"] or [None]):
                kwg.setdefault(v, []).append(d["k"])
        if not check_partition("kw", kwg):
            return
        qg = {"hasw": [d["k"] for d in docs if "w" in d["body"]],
              "hasu": [d["k"] for d in docs if "u" in d["body"] and "w" not in d["body"]]}
        gotq = group_keys("qf")
        # QueryFacet without overlap: a document goes to one group; accept either group for docs matching both
        flat = sorted(k for v in gotq.values() for k in v if True)
        both = set(d["k"] for d in docs if "w" in d["body"] or "u" in d["body"])
        none_grp = gotq.get(None, [])
        if set(flat) - set(none_grp) != both or any(("w" not in next(d for d in docs if d["k"] == k)["body"]) for k in gotq.get("hasw", [])) \
                or any(("u" not in next(d for d in docs if d["k"] == k)["body"]) for k in gotq.get("hasu", [])) \
                or len(flat) != len(set(flat)) or set(flat) != mkeys:
            out.fail("c14.groups:queryfacet", {"got": str(gotq)[:300]})
            return
        rfg = {}
        for d in docs:
            v = d["nm"]
            if v is None or not (-5 <= v < 4):  # buckets [-5,-2) [-2,1) [1,4): the end of the last one is excluded
                gk = None
            else:
                lo = -5 + ((v + 5) // 3) * 3
                gk = (lo, lo + 3)
            rfg.setdefault(gk, []).append(d["k"])
        if not check_partition("rf", rfg):
            return
        # --- filter / mask: restriction without reordering
        base = keys_of(full)
        fset = set(d["k"] for d in alldocs if d["tag"] == "t1")
        mset = set(d["k"] for d in alldocs if d["tag"] == "t2")
        fq, mq = query.Term("tag", "t1"), query.Term("tag", "t2")
        forms = {
            "query": (fq, mq),
            "results": (s.search(fq, limit=None), s.search(mq, limit=None)),
            "set": (set(docnum[k] for k in fset if k in docnum), set(docnum[k] for k in mset if k in docnum)),
        }
        for form, (fobj, mobj) in forms.items():
            got = keys_of(s.search(q, limit=None, filter=fobj))
            if got != [k for k in base if k in fset]:
                out.fail("c14.filter:%s" % form, {"got": got[:12], "expected": [k for k in base if k in fset][:12]})
                return
            got = keys_of(s.search(q, limit=None, mask=mobj))
            if got != [k for k in base if k not in mset]:
                out.fail("c14.mask:%s" % form, {"got": got[:12], "expected": [k for k in base if k not in mset][:12]})
                return
            r2 = s.search(q, limit=2, filter=fobj, mask=mobj)
            exp2 = [k for k in base if k in fset and k not in mset]
            if keys_of(r2) != exp2[:2] or len(r2) != len(exp2):
                out.fail("c14.filter_mask_limit:%s" % form, {"got": keys_of(r2), "len": len(r2), "expected": exp2[:2],
                                                            "expected_len": len(exp2)})
                return
        # --- paging
        pnum, plen = case["page"]
        pg = s.search_page(q, pnum, pagelen=plen)
        total = len(base)
        pagecount = -(-total // plen)
        eff = min(pagecount, pnum)
        if total:
            exp_slice = base[(eff - 1) * plen:(eff - 1) * plen + plen]
            if keys_of(pg) != exp_slice or pg.total != total or pg.pagecount != pagecount or pg.pagenum != eff \
                    or pg.offset != (eff - 1) * plen or pg.pagelen != len(exp_slice):
                out.fail("c14.page", {"page": [pnum, plen], "got": keys_of(pg), "expected": exp_slice, "total": pg.total,
                                      "pagecount": pg.pagecount, "pagenum": pg.pagenum, "offset": pg.offset})
                return
        # --- collapse on tag: best N per key
        for climit in (1, 2):
            rc = s.search(q, limit=None, collapse="tag", collapse_limit=climit)
            kept = {}
            exp = []
            for k in base:
                t = next(d for d in docs if d["k"] == k)["tag"]
                if kept.get(t, 0) < climit:
                    kept[t] = kept.get(t, 0) + 1
                    exp.append(k)
            if keys_of(rc) != exp:
                out.fail("c14.collapse_hits", {"limit": climit, "got": keys_of(rc)[:12], "expected": exp[:12]})
                return
            cnt = {}
            for d in docs:
                cnt[d["tag"]] = cnt.get(d["tag"], 0) + 1
            expc = dict((t, c - climit) for t, c in cnt.items() if c > climit)
            gotc = dict((t.decode() if isinstance(t, bytes) else t, c) for t, c in rc.collapsed_counts.items() if c)
            if gotc != expc:
                out.fail("c14.collapsed_counts", {"limit": climit, "got": gotc, "expected": expc})
                return
            for lim in case["limits"][:1]:
                rl = s.search(q, limit=lim, collapse="tag", collapse_limit=climit)
                if keys_of(rl) != exp[:lim]:
                    out.fail("c14.collapse_with_limit_hits", {"limit": lim, "climit": climit, "got": keys_of(rl), "expected": exp[:lim]})
                    return
                if len(rl) != len(rc):
                    out.fail("c14.collapse_len_depends_on_limit", {"limit": lim, "len_limited": len(rl), "len_unlimited": len(rc),
                                                                   "matched": len(base), "kept": len(exp)})
                    return
        # --- collapse on a field that some documents lack, with and without a column: same survivors, and the same
        # count whatever the limit
        rc_col = s.search(q, limit=None, collapse="tx", collapse_limit=1)
        rc_post = s.search(q, limit=None, collapse="tx2", collapse_limit=1)
        if keys_of(rc_col) != keys_of(rc_post) or len(rc_col) != len(rc_post):
            out.fail("c14.collapse_column_vs_postings", {"column": keys_of(rc_col)[:12], "postings": keys_of(rc_post)[:12],
                                                         "len": [len(rc_col), len(rc_post)]})
            return
        for lim in case["limits"][:2]:
            for f in ("tx", "tx2", "nm"):
                full = rc_col if f == "tx" else rc_post if f == "tx2" else s.search(q, limit=None, collapse=f, collapse_limit=1)
                rl = s.search(q, limit=lim, collapse=f, collapse_limit=1)
                if keys_of(rl) != keys_of(full)[:lim]:
                    out.fail("c14.collapse_with_limit_hits", {"field": f, "limit": lim, "got": keys_of(rl), "expected": keys_of(full)[:lim]})
                    return
                if len(rl) != len(full):
                    out.fail("c14.collapse_len_depends_on_limit", {"field": f, "limit": lim, "len_limited": len(rl),
                                                                   "len_unlimited": len(full), "matched": len(base)})
                    return
    out.nontrivial = nseg >= 2 and any(ties_and_missing(docs, f) for f in ("tx", "nm", "dt"))
    out.label("segments_%d" % min(nseg, 4), "q_" + qname)
    if case["bare_first"]:
        out.label("segment_without_columns")


SUBS = {
    "views": Sub(run, strategy, quick=60, thorough=1000, quick_shards=8),
}
