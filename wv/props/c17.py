"""C17 - index- and query-time analysis agree: documents are findable by their own words."""
import re
from html.parser import HTMLParser

from hypothesis import strategies as st

from whoosh import fields, query, qparser, analysis, highlight
from whoosh.filedb.filestore import RamStorage
from whoosh.lang import languages
from whoosh.support.charset import accent_map, charset_table_to_dict, default_charset

from wv.runner import Sub

PROP = "C17"
LEVEL = "exploration"
RULE = ("Each case = a generated text (words from several scripts, mixed case, accents, numbers, e-mail / URL-like "
        "pieces, stop words, 1-char and very long tokens, punctuation and whitespace kinds, plus arbitrary unicode) x one "
        "of ~45 analyzer configurations (Simple, Standard, Stemming, Fancy, Language for every shipped language, Keyword "
        "+/- commas, ID, Regex +/- gaps, Ngram, NgramWords, Standard with CharsetFilter / BiWordFilter / IntraWordFilter "
        "(merging on) / ShingleFilter / DoubleMetaphoneFilter / SubstitutionFilter / a MultiFilter index-query pair) x a "
        "field type (TEXT, TEXT chars=True, KEYWORD, ID, NGRAM, NGRAMWORDS). The text is indexed as one document next to "
        "decoy documents; oracle: (1) Term(field, token) finds the document for every index-time token; (2) the "
        "conjunction of the query-time tokens of the same text finds it, and so does the parsed query of every word-like "
        "piece; (3) on positional fields the phrase of the tokens at any run of consecutive positions finds it; (4) "
        "positions never decrease in order of appearance and, for offset-preserving analyzers, text[startchar:endchar] "
        "re-analysed alone yields the token; (5) highlights under every fragmenter and a sentinel formatter (and the "
        "shipped Html/Uppercase/Null formatters through their inverse): each fragment, stripped of markup, is a substring "
        "of the text and every marked span analyses to a matched query term; the query also names, as first or last "
        "clause, a word of the text in ANOTHER field (where a tagged document carries it), which must not be marked, and "
        "half of the searches do not record matched terms (the highlighter then works from the query's terms and "
        "re-tokenises); (6) DelimitedAttributeFilter offsets cover the word without its ^attribute tail even after a "
        "length-changing filter. Non-trivial = >=3 tokens of which >=1 was "
        "altered by a filter; distinct by SHA-1 of (analyzer, field type, text).")
ASSUMPTIONS = [
    "offset clause applies to analyzers whose tokens are contiguous slices of the source text (not to n-gram, shingle, "
    "biword, intra-word-merge or phonetic filters, which synthesise tokens)",
    "phrase clause uses tokens at consecutive positions with pairwise distinct positions",
]

OPEN, CLOSE, BETWEEN = "\ue000", "\ue001", "\ue002"

WORDS = ["stra\u00dfe^2", "gro\u00df^1.5", "PowerShot^2.5", "helloworld", "foobar", "/usr/local/Lib", "a/b/c", "www.example.org/x_y?q=1&r=2", "ham^x",
         "Rendering", "shading", "the", "The", "and", "of", "cafés", "naïve", "Ünïcode", "straße", "москва", "Привет",
         "中文字", "日本語", "hello", "world", "worlds", "running", "ran", "x", "I", "a", "2024", "3.14", "v2.0", "foo_bar",
         "Wi-Fi", "PowerShot", "e-mail", "user@example.com", "http://example.com/a?b=c", "AT&T", "O'Neil", "don't",
         "C++", "#tag", "100%", "supercalifragilisticexpialidocious" * 3, "ÀÉÎÕÜ", "ﬁne", "İstanbul", "ǅ", "𝒜𝒷", "👍",
         "co-operate", "state-of-the-art", "5,000", "x1y2", "ABC123def", "x<y", "List<String>", "&lt;", "a&b", "<b>bold</b>",
         "&amp;", "SD-500-42", "router", "\"quoted\""]
SEPS = [" ", " ", " ", "  ", "\t", "\n", ", ", ". ", "; ", " - ", "/", ":", "!", "? ", " (", ") ", " ", "　", "-", "'"]


def text_s():
    piece = st.one_of(st.sampled_from(WORDS), st.sampled_from(WORDS[:24]), st.text(alphabet=st.characters(blacklist_characters=OPEN + CLOSE + BETWEEN, blacklist_categories=("Cs",)), max_size=6),
                      st.text(alphabet=st.characters(whitelist_categories=("Ll", "Lu", "Nd")), min_size=1, max_size=8))
    return st.lists(st.tuples(piece, st.sampled_from(SEPS)), min_size=1, max_size=10).map(
        lambda ps: "".join(p + s for p, s in ps))


ANALYZERS = {
    "simple": lambda: analysis.SimpleAnalyzer(),
    "standard": lambda: analysis.StandardAnalyzer(),
    "standard_nostop": lambda: analysis.StandardAnalyzer(stoplist=None, minsize=1),
    "stemming": lambda: analysis.StemmingAnalyzer(),
    # words that must not be stemmed, at index time and - after the analyzer went through the index's pickled schema -
    # at query time alike
    "stemming_ignore": lambda: analysis.StemmingAnalyzer(ignore=frozenset([u"worlds", u"running", u"rendering", u"shading"])),
    "fancy": lambda: analysis.FancyAnalyzer(),
    "keyword": lambda: analysis.KeywordAnalyzer(),
    "keyword_commas": lambda: analysis.KeywordAnalyzer(lowercase=True, commas=True),
    "id": lambda: analysis.IDAnalyzer(),
    "id_lower": lambda: analysis.IDAnalyzer(lowercase=True),
    "regex": lambda: analysis.RegexAnalyzer(),
    "regex_gaps": lambda: analysis.RegexAnalyzer(r"[\s,.;]+", gaps=True),
    "space": lambda: analysis.SpaceSeparatedTokenizer() | analysis.LowercaseFilter(),
    "ngram": lambda: analysis.NgramAnalyzer(2, 3),
    "ngramwords": lambda: analysis.NgramWordAnalyzer(2, 3),
    "ngramwords_start": lambda: analysis.NgramWordAnalyzer(1, 4, at="start"),
    "ngramwords_end": lambda: analysis.NgramWordAnalyzer(2, 3, at="end"),
    "ngram_wide": lambda: analysis.NgramAnalyzer(1, 5),
    "charset": lambda: analysis.StandardAnalyzer() | analysis.CharsetFilter(accent_map),
    "biword": lambda: analysis.StandardAnalyzer() | analysis.BiWordFilter(),
    "intraword": lambda: analysis.RegexTokenizer(r"\S+") | analysis.IntraWordFilter() | analysis.LowercaseFilter(),
    "intraword_merge": lambda: analysis.RegexTokenizer(r"\S+") | analysis.IntraWordFilter(mergewords=True, mergenums=True)
    | analysis.LowercaseFilter(),
    "intraword_multi": lambda: analysis.RegexTokenizer(r"\S+") | analysis.MultiFilter(
        index=analysis.IntraWordFilter(mergewords=True, mergenums=True),
        query=analysis.IntraWordFilter(mergewords=False, mergenums=False)) | analysis.LowercaseFilter(),
    "shingle": lambda: analysis.StandardAnalyzer() | analysis.ShingleFilter(2),
    "metaphone": lambda: analysis.StandardAnalyzer() | analysis.DoubleMetaphoneFilter(combine=True),
    "substitution": lambda: analysis.RegexTokenizer(r"\S+") | analysis.SubstitutionFilter("-", "") | analysis.LowercaseFilter(),
    "tee": lambda: analysis.RegexTokenizer(r"\S+") | analysis.TeeFilter(analysis.LowercaseFilter(), analysis.PassFilter()),
    "compound": lambda: analysis.RegexTokenizer(r"\S+") | analysis.LowercaseFilter() | analysis.CompoundWordFilter(
        set(["power", "shot", "hello", "world", "foo", "bar", "run", "ning", "render", "ing"]), keep_compound=True),
    "compound_nokeep": lambda: analysis.RegexTokenizer(r"\S+") | analysis.LowercaseFilter() | analysis.CompoundWordFilter(
        set(["power", "shot", "hello", "world", "foo", "bar", "run", "ning", "render", "ing"]), keep_compound=False),
    "comma": lambda: analysis.CommaSeparatedTokenizer() | analysis.LowercaseFilter(),
    "path": lambda: analysis.PathTokenizer() | analysis.LowercaseFilter(),
    "charset_tok": lambda: analysis.CharsetTokenizer(charset_table_to_dict(default_charset)),
    "url": lambda: analysis.RegexTokenizer(analysis.filters.url_pattern) | analysis.LowercaseFilter(),
    "delimited": lambda: analysis.RegexTokenizer(r"\S+") | analysis.DelimitedAttributeFilter(delimiter="^", attribute="boost")
    | analysis.LowercaseFilter(),
    "delimited_folded": lambda: analysis.RegexTokenizer(r"\S+") | analysis.SubstitutionFilter(u"\u00df", "ss")
    | analysis.DelimitedAttributeFilter(delimiter="^", attribute="boost") | analysis.LowercaseFilter(),
    "stop_norenumber": lambda: analysis.RegexTokenizer() | analysis.LowercaseFilter() | analysis.StopFilter(renumber=False),
    "strip": lambda: analysis.RegexTokenizer(r"[^,]+") | analysis.StripFilter() | analysis.LowercaseFilter(),
}
for _lang in languages:
    ANALYZERS["lang_" + _lang] = (lambda l=_lang: analysis.LanguageAnalyzer(l))

# analyzers whose tokens are contiguous slices of the source text (offset clause applies)
SLICING = {"simple", "standard", "standard_nostop", "stemming", "stemming_ignore", "fancy", "keyword", "keyword_commas", "id", "id_lower",
           "regex", "regex_gaps", "space", "charset", "strip", "comma", "charset_tok", "url", "stop_norenumber"} | set("lang_" + l for l in languages)
NGRAMS = {"ngram", "ngramwords", "ngramwords_start", "ngramwords_end", "ngram_wide", "field"}
# slicing analyzers without a stemmer / morphological filter
EXACT = {"simple", "standard", "standard_nostop", "keyword", "id", "id_lower", "regex", "regex_gaps", "space", "charset",
         "charset_tok", "url", "stop_norenumber"}
# StripFilter changes the token text but (documentedly) not its offsets
STRIPPING = {"strip", "keyword_commas", "comma"}
SYNTHESISING = NGRAMS | {"tee", "compound", "compound_nokeep", "path", "delimited", "delimited_folded", "biword", "shingle", "metaphone", "intraword_merge", "intraword_multi"}


def strategy(tier):
    return st.fixed_dictionaries({
        "text": text_s(),
        # every analyzer, with extra weight on the ones whose index- and query-time chains differ or that synthesise tokens
        "analyzer": st.one_of(st.sampled_from(sorted(ANALYZERS)), st.sampled_from(sorted(ANALYZERS)),
                              st.sampled_from(["intraword_multi", "intraword_multi", "intraword_merge", "fancy", "ngramwords",
                                               "charset", "stemming", "stemming_ignore", "stemming_ignore", "delimited_folded", "delimited"])),
        "ftype": st.sampled_from(["text", "text", "text", "text_chars", "text_chars", "keyword", "id", "ngram_field",
                                  "ngramwords_field"]),
        "fragmenter": st.sampled_from(["context", "sentence", "whole", "pinpoint"]),
    })


def make_field(ftype, ana):
    if ftype == "text":
        return fields.TEXT(analyzer=ana, stored=True, phrase=True)
    if ftype == "text_chars":
        return fields.TEXT(analyzer=ana, stored=True, phrase=True, chars=True)
    if ftype == "keyword":
        f = fields.KEYWORD(stored=True)
        f.analyzer = ana
        return f
    if ftype == "ngram_field":
        return fields.NGRAM(minsize=2, maxsize=3, stored=True, phrase=True)
    if ftype == "ngramwords_field":
        return fields.NGRAMWORDS(minsize=2, maxsize=3, stored=True)
    f = fields.ID(stored=True)
    f.analyzer = ana
    return f




class SentinelFormatter(highlight.Formatter):
    between = BETWEEN

    def format_token(self, text, token, replace=False):
        return OPEN + highlight.get_text(text, token, replace) + CLOSE


class _Inv(HTMLParser):
    def __init__(self):
        HTMLParser.__init__(self, convert_charrefs=True)
        self.out = []

    def handle_starttag(self, tag, attrs):
        self.out.append(OPEN if tag == "strong" and ("class", "match term%s" % dict(attrs).get("class", "")[10:]) in attrs
                        else "<%s>" % tag)

    def handle_endtag(self, tag):
        self.out.append(CLOSE if tag == "strong" else "</%s>" % tag)

    def handle_data(self, data):
        self.out.append(data)


def html_inverse(markup):
    """What a browser would show: text content with the highlighting element's extent marked."""
    p = _Inv()
    p.feed(markup)
    p.close()
    return "".join(p.out)


def null_formatter():
    fm = highlight.NullFormatter()
    fm.between = BETWEEN
    return fm


def toks(ana, text, mode, **kw):
    out = []
    for t in ana(text, positions=True, chars=True, mode=mode, **kw):
        out.append((t.text, t.pos, t.startchar, t.endchar))
    return out


def run(case, out):
    name = case["analyzer"]
    text = case["text"]
    ftype = case["ftype"]
    if ftype in ("ngram_field", "ngramwords_field"):
        # these field types bring their own analyzer
        name = "field"
        field = make_field(ftype, None)
        ana = field.analyzer
    else:
        ana = ANALYZERS[name]()
        field = make_field(ftype, ana)
    try:
        itoks = toks(ana, text, "index")
    except Exception as e:
        if name in ("delimited", "delimited_folded") and isinstance(e, ValueError):
            # text after the delimiter is by contract the attribute value: not a float -> invalid input
            out.exclude("invalid_delimited_attribute")
            return
        out.fail("c17.analyzer_raises:%s:%s" % (name, type(e).__name__), {"text": text, "err": repr(e)})
        return
    if not itoks:
        out.exclude("no_tokens")
        return
    schema = fields.Schema(k=fields.ID(stored=True), f=field)
    ix = RamStorage().create_index(schema)
    w = ix.writer()
    w.add_document(k=u"decoy1", f=u"zzqx decoy document")
    w.add_document(k=u"target", f=text)
    w.add_document(k=u"decoy2", f=u"another unrelated zzqy")
    # a word of the target text that is, as a term, only searched for in the OTHER field (see the highlight clause)
    all_terms = [t for t in sorted(set(t[0] for t in itoks)) if t]
    other_word = all_terms[3] if len(all_terms) > 3 else None
    if other_word is not None:
        w.add_document(k=other_word, f=u"zzqw tagged")
    # a later document that shares the target's first word, at another character offset: what is highlighted in the
    # target must come from the target's own offsets
    first = next((t for t in itoks if t[2] is not None and t[3] is not None and t[0]), None)
    if first is not None and ftype in ("text", "text_chars"):
        w.add_document(k=u"sibling", f=u"zzqv zzqu zzqt " + text[first[2]:first[3]])
    w.commit()
    # query-time analysis as a later process does it: with the schema unpickled from the index's table of contents
    ix = ix.storage.open_index()
    schema = ix.schema
    positional = ftype in ("text", "text_chars")
    with ix.searcher() as s:
        def finds(q):
            return u"target" in [h["k"] for h in s.search(q, limit=None)]

        # (1) every index-time token is searchable
        for t, pos, sc, ec in itoks:
            if t == "":
                continue
            if not finds(query.Term("f", t)):
                out.fail("c17.index_token_not_findable:%s" % name, {"text": text, "token": t, "ftype": ftype})
                return
        # (2) query-time analysis of the same text finds the document
        try:
            qtexts = list(schema["f"].process_text(text, mode="query"))
        except Exception as e:
            out.fail("c17.query_analysis_raises:%s:%s" % (name, type(e).__name__), {"text": text, "err": repr(e)})
            return
        qtexts = [t for t in qtexts if t != ""]
        if qtexts and not finds(query.And([query.Term("f", t) for t in qtexts])):
            out.fail("c17.query_time_tokens_do_not_find_document:%s" % name,
                     {"text": text, "query_tokens": qtexts[:10], "index_tokens": [t[0] for t in itoks][:10], "ftype": ftype})
            return
        parser = qparser.QueryParser("f", schema)
        if name in ("intraword_multi", "intraword", "intraword_merge", "substitution") and ftype in ("text", "text_chars"):
            # analyzers whose tokenizer keeps whole whitespace-separated words: the word as the user types it
            # (Wi-Fi, PowerShot, SD-500-42) must find the document through the parser, whose query-mode analysis may
            # split it differently from the index-mode one (MultiFilter)
            for piece in text.split()[:8]:
                # (punctuation hanging on the word is a delimiter for IntraWordFilter: the user types the bare word)
                if name != "substitution":
                    piece = piece.strip(u".,;:!?()'-")
                if not re.match(r"^[A-Za-z0-9][A-Za-z0-9_-]*[A-Za-z0-9]$", piece) or piece.upper() in (
                        "AND", "OR", "NOT", "TO", "ANDNOT", "ANDMAYBE", "REQUIRE"):
                    continue
                if not list(schema["f"].process_text(piece, mode="query")):
                    continue
                pq = parser.parse(piece)
                if not finds(pq):
                    out.fail("c17.parsed_word_does_not_find_document:%s" % name,
                             {"text": text, "word": piece, "parsed": repr(pq)[:200]})
                    return
                out.label("parsed_intraword_word")
                if re.search(r"[-_]|[a-z][A-Z]|[A-Za-z][0-9]|[0-9][A-Za-z]", piece):
                    out.label("parsed_intraword_word_with_parts")
        for piece in re.findall(r"\w+", text)[:6]:
            if piece.upper() in ("AND", "OR", "NOT", "TO", "ANDNOT", "ANDMAYBE", "REQUIRE"):
                continue
            pq_tokens = list(schema["f"].process_text(piece, mode="query"))
            idx_tokens = set(t[0] for t in toks(ana, piece, "index"))
            text_tokens = set(t[0] for t in itoks)
            # only pieces that the analyzer tokenises the same way inside the text and alone
            if not pq_tokens or not set(pq_tokens) <= text_tokens or not idx_tokens <= text_tokens:
                continue
            try:
                pq = parser.parse(piece)
            except qparser.QueryParserError:
                continue
            if name in SYNTHESISING:
                continue
            if not finds(pq):
                out.fail("c17.parsed_word_does_not_find_document:%s" % name, {"text": text, "word": piece, "parsed": repr(pq)[:200]})
                return
        # (3) phrases of consecutive positions
        if positional:
            bypos = {}
            for t, pos, sc, ec in itoks:
                bypos.setdefault(pos, []).append(t)
            poses = sorted(bypos)
            for i in range(len(poses) - 1):
                run_ = [poses[i]]
                while len(run_) < 3 and run_[-1] + 1 in bypos:
                    run_.append(run_[-1] + 1)
                if len(run_) >= 2:
                    words = [bypos[p][0] for p in run_]
                    if not finds(query.Phrase("f", words)):
                        out.fail("c17.phrase_of_consecutive_positions_not_found:%s" % name,
                                 {"text": text, "words": words, "positions": run_})
                        return
        # (3b) the same, from the query side: what the parser builds for a quoted slice of the text
        if positional and name not in SYNTHESISING - {"intraword_merge", "intraword_multi"}:
            qt = toks(ana, text, "query")
            for i in range(len(qt) - 1):
                win = qt[i:i + 3] if i % 2 else qt[i:i + 2]
                if [w[1] for w in win] != list(range(win[0][1], win[0][1] + len(win))):
                    continue
                if len(set(w[0] for w in win)) != len(win):
                    continue
                words = [w[0] for w in win]
                if not finds(query.Phrase("f", words)):
                    out.fail("c17.phrase_of_query_time_tokens_not_found:%s" % name,
                             {"text": text, "words": words, "index_tokens": itoks[:12]})
                    return
                piece = text[win[0][2]:win[-1][3]]
                if '"' in piece or [w[0] for w in toks(ana, piece, "query")] != words:
                    continue
                pq = parser.parse('"%s"' % piece)
                if isinstance(pq, query.Phrase) and pq.words == words and not finds(pq):
                    out.fail("c17.parsed_phrase_does_not_find_document:%s" % name, {"text": text, "piece": piece})
                    return
                out.label("parsed_phrase")
        # (4) positions and offsets
        last = -1
        for t, pos, sc, ec in itoks:
            if pos is not None:
                if pos < last:
                    out.fail("c17.positions_decrease:%s" % name, {"text": text, "tokens": itoks[:10]})
                    return
                last = pos
        if name in NGRAMS:
            # query mode too (the stand-alone highlight() function analyses the text in query mode)
            for t, pos, sc, ec in toks(ana, text, "query"):
                # (lower-casing is context-sensitive - a capital sigma becomes a final or a medial small sigma depending
                # on its neighbours - so the slice lowered on its own is compared with the gram up to case folding)
                if sc is not None and text[sc:ec].lower() != t and text[sc:ec] != t and text[sc:ec].casefold() != t.casefold():
                    word = re.search(r"\S*$", text[:sc]).group(0) + re.match(r"\S*", text[sc:]).group(0)
                    if any(len(ch.lower()) != 1 for ch in word):
                        continue   # recorded finding (length-changing lowercase)
                    out.fail("c17.query_mode_offsets_do_not_delimit_token:%s" % name,
                             {"text": text, "token": t, "slice": text[sc:ec], "offsets": [sc, ec], "ftype": ftype})
                    return
            for t, pos, sc, ec in itoks:
                if sc is not None and text[sc:ec].lower() != t and text[sc:ec] != t and text[sc:ec].casefold() != t.casefold():
                    # known finding: a LowercaseFilter in front of NgramFilter changes the length of the word
                    # (only U+0130 does that), and the gram offsets are then counted in the lowered word
                    word = re.search(r"\S*$", text[:sc]).group(0) + re.match(r"\S*", text[sc:]).group(0)
                    sig = ("c17.ngram_offsets_after_length_changing_lowercase" if any(len(ch.lower()) != 1 for ch in word)
                           else "c17.offsets_do_not_delimit_token:%s" % name)
                    out.fail(sig,
                             {"text": text, "token": t, "slice": text[sc:ec], "offsets": [sc, ec], "ftype": ftype})
                    return
        if name in SLICING:
            for t, pos, sc, ec in itoks:
                if sc is None or ec is None:
                    continue
                src = text[sc:ec]
                try:
                    again = [x[0] for x in toks(ana, src, "index", removestops=False)]
                except ValueError as e:
                    # the whole text was analysable, so a slice that is not (a delimited attribute cut in two) is
                    # not the source text of a token
                    again = ["<%s>" % type(e).__name__]
                if t not in again:
                    out.fail("c17.offsets_do_not_delimit_token:%s" % name,
                             {"text": text, "token": t, "slice": src, "slice_tokens": again[:5], "offsets": [sc, ec]})
                    return
                # "exactly": a character at either end that can be dropped without changing the token is not part
                # of the token's source text
                if len(src) > 1 and name in EXACT:
                    for side, shorter in (("left", src[1:]), ("right", src[:-1])):
                        if [x[0] for x in toks(ana, shorter, "index", removestops=False)] == [t]:
                            out.fail("c17.offsets_wider_than_token:%s" % name,
                                     {"text": text, "token": t, "slice": src, "droppable_end": side, "offsets": [sc, ec]})
                            return
                elif name in ("stemming", "stemming_ignore") or name.startswith("lang_"):
                    # stemmers map shorter words to the same stem (fi: "BB" and "B" -> "b"), so droppability proves
                    # nothing there: the slice must just begin and end with a word character
                    if not (re.match(r"\w", src[0], re.U) and re.match(r"\w", src[-1], re.U)):
                        out.fail("c17.offsets_wider_than_token:%s" % name,
                                 {"text": text, "token": t, "slice": src, "droppable_end": "non-word character", "offsets": [sc, ec]})
                        return
        if name in ("delimited", "delimited_folded"):
            # the offsets cover the word without its "^attribute" tail (so that highlighting excludes it), however
            # the filters before the DelimitedAttributeFilter changed the word's length
            for t, pos, sc, ec in itoks:
                if sc is None or ec is None:
                    continue
                word = re.match(r"\S*", text[sc:]).group(0)
                if (sc > 0 and not text[sc - 1].isspace()) or text[sc:ec] != word.split("^")[0]:
                    out.fail("c17.offsets_do_not_delimit_token:%s" % name,
                             {"text": text, "token": t, "slice": text[sc:ec], "word": word, "offsets": [sc, ec]})
                    return
        # (5) highlights
        if name not in NGRAMS | {"metaphone", "shingle", "biword"}:
            target_terms = [t for t in sorted(set(t[0] for t in itoks)) if t][:3]
            # the query also names, in ANOTHER field, a word that occurs in this field's text but is not searched
            # for here: it must not be highlighted in this field.  Half of the cases search without recording the
            # matched terms (the highlighter then works from the query's terms)
            clauses = [query.Term("f", t) for t in target_terms]
            if other_word is not None:
                # first or last clause: Query.existing_terms() treats the leaves in order
                clauses.insert(0 if (len(text) // 2) % 2 == 0 else len(clauses), query.Term("k", other_word))
            q = query.Or(clauses)
            record_terms = (len(text) % 2 == 0)
            r = s.search(q, limit=None, terms=record_terms)
            out.label("highlight_terms_recorded" if record_terms else "highlight_from_query_terms")
            frag = {"context": highlight.ContextFragmenter(maxchars=40, surround=10),
                    "sentence": highlight.SentenceFragmenter(maxchars=60),
                    "whole": highlight.WholeFragmenter(),
                    "pinpoint": highlight.PinpointFragmenter(maxchars=40, surround=10)}[case["fragmenter"]]
            if case["fragmenter"] == "pinpoint" and ftype != "text_chars":
                frag = highlight.ContextFragmenter(maxchars=40, surround=10)
            for h in r:
                if h["k"] != u"target":
                    continue
                r.fragmenter = frag
                r.formatter = SentinelFormatter()
                try:
                    hl = h.highlights("f", top=5)
                except Exception as e:
                    out.fail("c17.highlight_raises:%s:%s" % (name, type(e).__name__), {"text": text, "err": repr(e),
                                                                                       "fragmenter": case["fragmenter"]})
                    return
                for fragment in hl.split(BETWEEN):
                    plain = fragment.replace(OPEN, "").replace(CLOSE, "")
                    if plain not in text:
                        out.fail("c17.highlight_fragment_not_substring:%s" % name,
                                 {"text": text, "fragment": fragment, "fragmenter": case["fragmenter"]})
                        return
                    for m in re.finditer(OPEN + "(.*?)" + CLOSE, fragment, re.S):
                        marked = m.group(1)
                        try:
                            mt = set(x[0] for x in toks(ana, marked, "index", removestops=False))
                        except ValueError:
                            mt = set()   # half a delimited attribute: not the text of any token
                        if not (mt & set(target_terms)):
                            out.fail("c17.highlight_marks_non_matching_text:%s" % name,
                                     {"text": text, "marked": marked, "marked_tokens": sorted(mt)[:5], "terms": target_terms})
                            return
                if hl:
                    out.label("highlighted")
                # shipped formatters, read back through their inverse, must say what the sentinel formatter said
                for fname, fm, inv in (("html", highlight.HtmlFormatter(between=BETWEEN), html_inverse),
                                       ("null", null_formatter(), None),
                                       ("uppercase", highlight.UppercaseFormatter(between=BETWEEN), None)):
                    r.formatter = fm
                    got = h.highlights("f", top=5)
                    if fname == "html":
                        got = inv(got)
                        want = hl
                    elif fname == "null":
                        want = hl.replace(OPEN, "").replace(CLOSE, "")
                    else:
                        want = re.sub(OPEN + "(.*?)" + CLOSE, lambda m: m.group(1).upper(), hl, flags=re.S)
                    if got != want:
                        out.fail("c17.shipped_formatter_disagrees:%s:%s" % (fname, name),
                                 {"text": text, "got": got, "want": want})
                        return
    altered = any(t[2] is not None and text[t[2]:t[3]] != t[0] for t in itoks)
    out.nontrivial = len(itoks) >= 3 and altered
    out.key = [name, ftype, text]
    out.label("ana_" + name, "ftype_" + ftype)


SUBS = {
    "findable": Sub(run, strategy, quick=250, thorough=5000, quick_shards=8),
}
