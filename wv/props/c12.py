"""C12 - quality bounds are true upper bounds on scores."""
from hypothesis import strategies as st

from whoosh import query as wq
from whoosh.matching import mcore

from wv.runner import Sub
from wv.refquery import walk
from wv.props import c11

PROP = "C12"
LEVEL = "exploration"
RULE = ("Matcher trees are produced exactly as in C11 (queries over generated multi-block corpora under BM25F with "
        "generated B/K1/per-field B, TF_IDF, Frequency, MultiWeighting; and trees built directly from ListMatchers). "
        "For every tree that reports supports_block_quality(), a generated program of next / skip_to moves is run and at "
        "every position reached: block_quality() >= score() of the current entry; for a plain term matcher block_quality() "
        ">= the score of every entry up to block_max_id(); max_quality() >= every remaining score. Then for a generated "
        "threshold q (0, negative, the score of a generated entry -/+ epsilon, above the maximum): skip_to_quality(q) on "
        "a fresh matcher at the same position must not pass over any entry scoring more than q, and replace(q) must keep every remaining entry scoring "
        "more than q with its score unchanged. Tolerance 1e-9 relative. Non-trivial = a position where the bound is "
        "within 5% of the score, or a call that actually skipped/dropped something; distinct by SHA-1 of (tree shape, "
        "threshold kind, list length).")
ASSUMPTIONS = [
    "entry scores are read from a pristine copy stepped with next() (cursor faithfulness is C11's subject)",
    "weighting models that do not claim quality support (PL2, DFree, ReverseWeighting, FunctionWeighting after the "
    "recorded fixes) are out of the statement's scope ('every shipped weighting model that claims quality support')",
]

thr_s = st.one_of(
    st.tuples(st.just("zero")),
    st.tuples(st.just("negative")),
    st.tuples(st.just("entry"), st.integers(0, 40), st.sampled_from([-1e-6, 0.0, 1e-6])),
    st.tuples(st.just("entry"), st.integers(0, 40), st.sampled_from([-1e-6, 0.0, 1e-6])),
    st.tuples(st.just("above_max")),
    st.tuples(st.just("half_max")),
)

move_s = st.lists(st.one_of(st.tuples(st.just("next")), st.tuples(st.just("next")),
                            st.tuples(st.just("skip_to"), st.integers(0, 40), st.sampled_from([-1, 0, 1]))).map(list),
                  max_size=8)


def strategy(tier):
    base = c11.strategy(tier)

    # a share of the directly built trees gets a binary root whose two sides share ids, so that the quality-driven
    # skip of one side regularly lands on an id the other side has to veto / confirm
    def rooted(case, kind, leaf, extra):
        if case["kind"] == "query" and kind == "union":
            kind = "dismax"
        if case["kind"] == "query":
            # the same for trees over real posting blocks: a binary root whose second side is a frequent term
            word = WORDS_BY_FREQUENCY[len(extra) % len(WORDS_BY_FREQUENCY)]
            other = {"op": "term", "f": "t", "x": word, "boost": 1.0}
            if case["query"]["op"] in ("not", "span", "spannear", "spanor", "spannot", "spanfirst", "spancontains", "spanbefore",
                                       "spancondition"):
                return case
            if kind == "dismax":
                return dict(case, query={"op": "dismax", "qs": [case["query"], other], "tiebreak": [0.0, 0.4][len(extra) % 2]})
            if kind == "inter3":
                # a nested intersection: three clauses over frequent terms
                third = {"op": "term", "f": "t", "x": WORDS_BY_FREQUENCY[(len(extra) + 1) % len(WORDS_BY_FREQUENCY)], "boost": 1.0}
                return dict(case, query={"op": "and", "qs": [case["query"], other, third], "boost": 1.0})
            return dict(case, query={"op": kind if kind != "inter" else "and", "a": case["query"], "b": other,
                                     "qs": [case["query"], other], "boost": 1.0})
        if case["kind"] != "direct":
            return case
        if kind == "inter3":
            kind = "inter"
        ids = sorted(set(extra) | set(leaf["ids"]))
        return dict(case, tree={"m": kind, "a": case["tree"], "b": dict(leaf, ids=ids)})
    base = st.one_of(base, base,
                     st.builds(rooted, base, st.sampled_from(["andnot", "inter", "require", "andmaybe", "dismax", "union", "inter3", "inter3"]), c11.list_leaf_s(),
                               st.lists(st.integers(0, 30), max_size=8)))
    weighting = st.one_of(
        st.builds(lambda B, K1, tB: {"kind": "bm25f", "B": B, "K1": K1, "t_B": tB},
                  st.sampled_from([0.75, 0.0, 1.0, 0.3]), st.sampled_from([1.2, 0.5, 2.0]),
                  st.sampled_from([None, 0.0, 1.0])),
        st.just({"kind": "tfidf"}), st.just({"kind": "frequency"}), st.just({"kind": "multi"}),
        # these do not claim quality support (any more): the cases are then counted as out of scope, and a change
        # that makes them claim it again brings them back under the oracle
        st.sampled_from([{"kind": "pl2", "c": 1.0}, {"kind": "dfree"}, {"kind": "reverse"}]))
    return st.builds(lambda case, moves, thr, w: dict(case, program=moves, thresholds=thr,
                                                      weighting=(w if case["kind"] == "query" else None),
                                                      context=("scored" if case["kind"] == "query" else None)),
                     base, move_s, st.lists(thr_s.map(list), min_size=1, max_size=3), weighting)


WORDS_BY_FREQUENCY = ["a", "b", "ab", "ba", "abc"]
TOL = 1e-9


def ge(bound, score):
    return bound >= score - TOL * max(1.0, abs(score), abs(bound))


def gt(score, q):
    return score > q + TOL * max(1.0, abs(score), abs(q))


def threshold_value(thr, scores, pos):
    kind = thr[0]
    rest = scores[pos:]
    mx = max(scores) if scores else 1.0
    if kind == "zero":
        return 0.0
    if kind == "negative":
        return -1.5
    if kind == "above_max":
        return mx * 1.5 + 1.0
    if kind == "half_max":
        return mx / 2.0
    if not rest:
        return 0.0
    return rest[thr[1] % len(rest)] + thr[2]


def run_one(make, case, out, tag):
    try:
        entries = c11.walk_entries(make(), False)
    except wq.QueryError:
        out.exclude("query_error")
        return
    if any("score" not in e for e in entries):
        out.exclude("unscored_matcher")
        return
    m = make()
    if not m.is_active() or not m.supports_block_quality():
        out.exclude("no_quality_support_or_empty")
        return
    scores = [e["score"] for e in entries]
    ids = [e["id"] for e in entries]
    pos = 0
    positions = [0]
    for op in case["program"]:
        if pos >= len(entries):
            break
        if op[0] == "next":
            m.next()
            pos += 1
        else:
            t = max(0, ids[op[1] % len(ids)] + op[2])
            if t > ids[pos]:
                m.skip_to(t)
                while pos < len(ids) and ids[pos] < t:
                    pos += 1
        if pos < len(entries):
            if not m.is_active() or m.id() != ids[pos]:
                out.exclude("cursor_diverged_see_C11")
                return
            positions.append(pos)
    tight = False
    moved = False

    def check_position(mm, p, where):
        nonlocal tight
        if not mm.supports_block_quality():
            return True
        bq = mm.block_quality()
        mq = mm.max_quality()
        sc = scores[p]
        if bq is None or mq is None:
            out.fail("c12.quality_is_none:%s" % where, {"tag": tag, "pos": p, "block_quality": bq, "max_quality": mq,
                                                        "matcher": repr(mm)[:300]})
            return False
        if not ge(bq, sc):
            out.fail("c12.block_quality_below_current_score:%s" % where,
                     {"tag": tag, "pos": p, "id": ids[p], "score": sc, "block_quality": bq, "matcher": repr(mm)[:300]})
            return False
        worst = max(scores[p:])
        if not ge(mq, worst):
            out.fail("c12.max_quality_below_remaining_score:%s" % where,
                     {"tag": tag, "pos": p, "max_quality": mq, "best_remaining": worst, "matcher": repr(mm)[:300]})
            return False
        if sc != 0 and abs(bq - sc) <= 0.05 * abs(sc):
            tight = True
        # plain term matcher: the bound covers the whole current block
        if hasattr(mm, "block_max_id") and type(mm).__name__ in ("W3LeafMatcher", "ListMatcher"):
            try:
                bmax = mm.block_max_id()
            except Exception:
                bmax = None
            if bmax is not None:
                j = p
                while j < len(ids) and ids[j] <= bmax:
                    if not ge(bq, scores[j]):
                        out.fail("c12.block_quality_below_score_in_block",
                                 {"tag": tag, "pos": p, "entry": j, "id": ids[j], "score": scores[j], "block_quality": bq,
                                  "block_max_id": bmax})
                        return False
                    j += 1
        return True

    # walk again, checking the bounds at every position visited by the program
    m = make()
    cur = 0
    for p in positions[1:] + [None]:
        if not check_position(m, cur, "program"):
            return
        if p is None:
            break
        if p == cur + 1:
            m.next()
        else:
            m.skip_to(ids[p])
        cur = p
    pos = cur
    # thresholds at the final position
    for thr in case["thresholds"]:
        q = threshold_value(thr, scores, pos)
        # skip_to_quality on a fresh matcher moved to the same position (copy() is not available on posting-block
        # matchers; that every route to a position gives the same cursor is C11's subject)
        def fresh_at(p):
            mm = make()
            if p > 0 and mm.is_active():
                mm.skip_to(ids[p])
            if not mm.is_active() or mm.id() != ids[p]:
                return None
            return mm
        c = fresh_at(pos)
        if c is None:
            out.exclude("cursor_diverged_see_C11")
            return
        if c is not None and c.supports_block_quality():
            sk = c.skip_to_quality(q)
            if c.is_active():
                cid = c.id()
                if cid not in ids[pos:]:
                    # After a quality skip a compound matcher may sit on a document one of whose clauses has already
                    # been moved on (its total cannot beat q): harmless as long as what it reports there does not
                    # beat q either, because the collector will then not take it.  Reporting more than q for a
                    # document that is not a match at all is a violation.
                    try:
                        phantom = c.score()
                    except Exception:
                        phantom = None
                    if phantom is None or gt(phantom, q):
                        out.fail("c12.skip_to_quality_landed_off_list", {"tag": tag, "id": cid, "ids": ids[pos:][:20],
                                                                         "reported_score": phantom, "q": q})
                        return
                    out.label("landed_on_non_entry_scoring_at_most_q")
                    newpos = len([i for i in ids if i < cid])
                    if newpos < pos:
                        out.fail("c12.skip_to_quality_moved_backwards", {"tag": tag, "id": cid, "from": ids[pos]})
                        return
                    lost = [(ids[j], scores[j]) for j in range(pos, newpos) if gt(scores[j], q)]
                    if lost:
                        out.fail("c12.skip_to_quality_passed_over_better_entry",
                                 {"tag": tag, "q": q, "thr": thr, "passed": lost[:4], "from": pos, "to": newpos,
                                  "matcher": repr(m)[:300]})
                        return
                    continue
                newpos = ids.index(cid, pos)
                # what the collector would take now is (id, score): if the score beats q it must be that entry's score
                try:
                    reported = c.score()
                except Exception:
                    reported = None
                if (reported is not None and scores[newpos] is not None and gt(reported, q)
                        and not c11.close(reported, scores[newpos], 1e-9)):
                    out.fail("c12.skip_to_quality_reports_another_entrys_score",
                             {"tag": tag, "q": q, "id": cid, "reported_score": reported, "score_of_that_id": scores[newpos],
                              "matcher": repr(m)[:300]})
                    return
            else:
                newpos = len(ids)
            lost = [(ids[j], scores[j]) for j in range(pos, newpos) if gt(scores[j], q)]
            if lost:
                out.fail("c12.skip_to_quality_passed_over_better_entry",
                         {"tag": tag, "q": q, "thr": thr, "passed": lost[:4], "from": pos, "to": newpos,
                          "matcher": repr(m)[:300]})
                return
            if newpos > pos:
                moved = True
            # (entries scoring <= q may be reported with a partial score after the skip: only entries that
            # still beat the threshold are required to be bounded correctly)
            if c.is_active() and gt(scores[newpos], q) and not check_position(c, newpos, "after_skip_to_quality"):
                return
        # replace(q) on another fresh matcher at the same position
        c2 = fresh_at(pos)
        if c2 is not None:
            r = c2.replace(q)
            rest = dict((e["id"], e.get("score")) for e in c11.walk_entries(r, False))
            for j in range(pos, len(ids)):
                if gt(scores[j], q):
                    if ids[j] not in rest:
                        out.fail("c12.replace_dropped_entry_above_threshold",
                                 {"tag": tag, "q": q, "thr": thr, "id": ids[j], "score": scores[j],
                                  "matcher": repr(m)[:300], "replaced": repr(r)[:300]})
                        return
                    if rest[ids[j]] is not None and not c11.close(rest[ids[j]], scores[j]):
                        out.fail("c12.replace_changed_score_above_threshold",
                                 {"tag": tag, "q": q, "id": ids[j], "score": scores[j], "after": rest[ids[j]]})
                        return
            if len(rest) < len(ids) - pos:
                moved = True
    if len(entries) >= 2 and (tight or moved):
        out.nontrivial = True
    out.key = (out.key or []) + [[tag.rstrip("0123456789"), [t[0] for t in case["thresholds"]], len(entries)]]
    if moved:
        out.label("skipped_or_dropped")
    if tight:
        out.label("tight_bound")


def strip_boosts(case):
    """the same case with every boost > 1 above a compound removed (attribution of the recorded
    WrappingMatcher.replace finding)"""
    import copy
    c = copy.deepcopy(case)
    if c["kind"] == "direct":
        def strip(t):
            for k in ("a", "b"):
                if k in t:
                    t[k] = strip(t[k])
            if "xs" in t:
                t["xs"] = [strip(x) for x in t["xs"]]
            if t["m"] == "wrap" and t["boost"] > 1.0:
                return t["a"]
            if t["m"] == "filter" and t.get("boost", 1.0) > 1.0:
                return dict(t, boost=1.0)
            return t
        c["tree"] = strip(c["tree"])
    else:
        for x in walk(c["query"]):
            if x.get("boost", 1.0) > 1.0:
                x["boost"] = 1.0
    return c


def has_big_boost(case):
    if case["kind"] == "direct":
        def anyw(t):
            if t["m"] in ("wrap", "filter") and t.get("boost", 1.0) > 1.0:
                return True
            return any(anyw(t[k]) for k in ("a", "b") if k in t) or any(anyw(x) for x in t.get("xs", []))
        return anyw(case["tree"])
    return any(x.get("boost", 1.0) > 1.0 for x in walk(case["query"]))


def run(case, out, _attributing=False):
    _run(case, out)
    if out.violations and not _attributing and has_big_boost(case) and \
            all(v["sig"].startswith(("c12.replace_dropped", "c12.replace_changed_score")) for v in out.violations):
        from wv.runner import Outcome
        scratch = Outcome()
        _run(strip_boosts(case), scratch)
        if not scratch.violations:
            for v in out.violations:
                v["sig"] = "c12.known_trigger:wrapping_boost_replace"


def _run(case, out):
    if case["kind"] == "query" and any(x.get("scale") is not None for x in walk(case["query"])):
        # Or(scale=...): the coordination wrapper's bounds have not been triaged yet (DESIGN 5.2, note); C11 checks
        # its cursor behaviour
        out.exclude("coordination_scale_bounds_not_triaged")
        return
    facs, shp = c11.factories(case, out)
    searcher = None
    try:
        for tag, make, s in facs:
            searcher = s
            run_one(make, case, out, tag)
            out.units += 1
    finally:
        if searcher is not None:
            searcher.close()
    out.key = [shp, out.key]
    out.label(case["kind"])
    if case["kind"] == "query":
        out.label("w_" + case["weighting"]["kind"])
        for o in set(x["op"] for x in walk(case["query"])):
            out.label("op_" + o)


SUBS = {
    "bounds": Sub(run, strategy, quick=1200, thorough=8000, quick_shards=8),
}
