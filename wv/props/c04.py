"""C04 - one writer at a time; no committed update is ever lost."""
import os
import sys
import json
import time
import traceback

from hypothesis import strategies as st

from whoosh import index, writing
from whoosh.index import LockError
from whoosh.filedb.filestore import FileStorage

from wv.runner import Sub, HarnessError
from wv.util import tempdir
from wv import corpus, gen
from wv.faultfs import Clock, FaultStorage, FaultRamStorage

PROP = "C04"
LEVEL = "exploration"
RULE = ("Each case = a small committed base index (directory or RAM), a main writer script A and a rival template B "
        "(and a third writer C nested inside some rivals): front-end plain writer / `with` block / AsyncWriter / "
        "BufferedWriter, lock timeout 0 or 30 ms, uniquely keyed adds plus deletes of base keys, outcome commit / cancel / "
        "exception inside the with-block. The storage wrapper stops A before EVERY storage operation it issues (lock "
        "acquire, TOC read is between acquire and the first create, every create/write/close/rename/delete, lock "
        "release); at each such boundary a fresh rival with its own keys tries to open a writer on the same index and "
        "runs to completion or to LockError - in the same process through a second storage object (flock conflicts "
        "between descriptors of one process exactly as between processes), at every 5th boundary in a forked child "
        "process, and at generated boundaries as an AsyncWriter whose retry thread is joined after A finished. One "
        "run of A therefore decides all single-preemption schedules of the pair. Oracle: the lock monitor never "
        "sees two holders; a rival that starts while the lock is held ends in LockError, not before its timeout "
        "elapsed, and one that starts while it is free is admitted; after A's commit / cancel / exception a new "
        "writer gets the lock at once; the final documents equal the base plus, in TOC-rename order, every successful "
        "commit's adds minus its deletes; latest_generation() = initial + number of successful commits; AsyncWriter "
        "rivals that met a busy lock are present after join. Scripts may add nothing (delete-only and idle commits "
        "advance the generation like any other); in some cases the index is re-created in place while A's writer is open "
        "and the writer attempt that follows must still be refused (content is not judged in those cases); a stale "
        "cancel() on the finished main writer while the next writer is open must not disturb that writer or admit a "
        "third; a writer that starts waiting for the lock in a thread of its own while A holds it must, once admitted, "
        "build on A's commit. Non-trivial = >=1 rival refused while the lock was held "
        "and >=1 rival admitted; distinct by SHA-1 of the case.")
ASSUMPTIONS = [
    "schedules are owned at storage-operation granularity; a rival runs atomically at a boundary of A (nested up to "
    "depth 2), which covers every ordering of 'B opens / reads the TOC / commits' relative to each step of A",
    "timing is only ever judged on the fast side (LockError earlier than the requested timeout); slowness is never a failure",
]


def script_s(maxadds=3):
    return st.fixed_dictionaries({
        "front": st.sampled_from(["seg", "seg", "with", "async", "buffered", "mp"]),
        "timeout": st.sampled_from([0, 0, 0.03]),
        # 0 adds: a transaction that only deletes (or does nothing at all) is a commit like any other
        "nadds": st.integers(0, maxadds),
        "dels": st.lists(st.integers(0, 5), max_size=2),
        "end": st.sampled_from(["commit", "commit", "cancel", "raise"]),
        "merge": st.sampled_from([False, True, "opt"]),
    })


@st.composite
def case_s(draw):
    return {
        "base": draw(st.lists(gen.doc_s(st.just("x"), boosts=False), min_size=1, max_size=6)),
        "base_commits": draw(st.integers(1, 3)),
        "store": draw(st.sampled_from(["file", "file", "ram"])),
        "A": draw(script_s(4)),
        "B": draw(script_s(2)),
        "C": draw(script_s(1)),
        "async_at": draw(st.lists(st.floats(0, 1, allow_nan=False), max_size=2)),
        "nest_at": draw(st.lists(st.integers(0, 40), max_size=3)),
        "fork_every": draw(st.sampled_from([5, 5, 3, 11])),
        # a child process forked while A's writer is open (a worker, a daemon) that outlives A's commit / cancel
        "bystander_at": draw(st.one_of(st.none(), st.integers(1, 60))),
        # the index is re-created in place (create_in over the same directory / storage) while A's writer is open;
        # the writer attempt that follows must still be refused
        "recreate_at": draw(st.one_of(st.none(), st.none(), st.integers(1, 40))),
        "stale_cancel": draw(st.booleans()),
        # a writer that starts waiting for the lock (timeout 60 s) while A holds it, in a thread of its own; it gets
        # the lock when A lets go and must build on what A committed
        "waiter_at": draw(st.one_of(st.none(), st.integers(1, 25))),
    }


def strategy(tier):
    return case_s()


class Monitor(object):
    """who holds WRITELOCK according to the acquire/release calls that succeeded"""

    def __init__(self, out):
        self.holder = None
        self.out = out

    def on_lock(self, clock, name, ok):
        if not ok:
            return
        if self.holder is not None:
            self.out.fail("c04.two_lock_holders", {"held_by": self.holder, "also_granted_to": clock.owner})
        self.holder = clock.owner

    def on_unlock(self, clock, name):
        if self.holder == clock.owner:
            self.holder = None


def run(case, out):
    try:
        _run(case, out)
    finally:
        # no sub-process of a multi-process writer outlives the case (a writer that failed half-way leaves them
        # waiting for jobs, and the interpreter would join them at exit)
        import multiprocessing
        for p in multiprocessing.active_children():
            p.terminate()
            p.join(5)


def _run(case, out):
    with tempdir() as d:
        path = os.path.join(d, "ix")
        os.makedirs(path)
        schema = corpus.build_schema({})
        ram = case["store"] == "ram"
        mon = Monitor(out)
        counter = {"n": 0}
        log = []          # successful commits in TOC-rename order: (owner, adds, dels)
        attempts = []     # (owner, lock_was_held_at_start, outcome, elapsed, timeout)
        ramstorage = {}

        def storage_for(owner, on_tick=None):
            ck = Clock(on_tick=on_tick)
            ck.owner = owner
            ck.on_lock = mon.on_lock
            ck.on_unlock = mon.on_unlock
            if ram:
                if "st" not in ramstorage:
                    ramstorage["st"] = FaultRamStorage(ck)
                    return ramstorage["st"], ck
                # one RamStorage object is the index; give this owner its own clock on it
                view = FaultRamStorage.__new__(FaultRamStorage)
                view.__dict__ = dict(ramstorage["st"].__dict__)
                view.clock = ck
                return view, ck
            return FaultStorage(path, ck), ck

        # base index
        st0, ck0 = storage_for("base")
        ix0 = st0.create_index(schema)
        base_keys = []
        docs = list(case["base"])
        per = max(1, len(docs) // case["base_commits"])
        model = {}
        i = 0
        gen0 = 0
        while i < len(docs):
            w = ix0.writer()
            for dd in docs[i:i + per]:
                dd = dict(dd)
                dd["k"] = "base%d" % len(base_keys)
                base_keys.append(dd["k"])
                w.add_document(**corpus.doc_kwargs(dd))
                model[dd["k"]] = True
            w.commit(merge=False)
            gen0 += 1
            i += per

        def keys_of(owner, script):
            return ["%s_%d" % (owner, j) for j in range(script["nadds"])]

        def run_script(owner, script, on_tick=None, depth=0):
            """Returns the outcome: committed / cancelled / raised / lockerror."""
            st_, ck = storage_for(owner, on_tick)
            ix = st_.open_index()
            held_at_start = mon.holder is not None
            adds = keys_of(owner, script)
            dels = [base_keys[j % len(base_keys)] for j in script["dels"]] if base_keys else []
            t0 = time.time()
            ck_args = {}
            if script["merge"] is False:
                ck_args["merge"] = False
            elif script["merge"] == "opt":
                ck_args["optimize"] = True
            outcome = None
            try:
                front = script["front"]
                if front == "async" and depth == 0:
                    front = "seg"   # the main writer itself is never asynchronous (it owns the schedule)
                if front == "mp" and (depth > 0 or ram):
                    front = "seg"   # the multi-process writer only as the main writer of a directory index
                if front == "mp":
                    from whoosh.multiproc import MpWriter
                    w = MpWriter(ix, procs=2, batchsize=1, timeout=script["timeout"], delay=0.01)
                elif front in ("seg", "with"):
                    w = ix.writer(timeout=script["timeout"], delay=0.01)
                elif front == "buffered":
                    w = writing.BufferedWriter(ix, period=None, limit=100, writerargs={"timeout": script["timeout"], "delay": 0.01},
                                               commitargs=ck_args)
                elif front == "async":
                    w = writing.AsyncWriter(ix, delay=0.002)
                    w.daemon = True   # a retry thread that can never get a leaked lock must not keep the process alive
            except LockError:
                outcome = "lockerror"
                attempts.append({"owner": owner, "held": held_at_start, "outcome": outcome,
                                 "elapsed": time.time() - t0, "timeout": script["timeout"]})
                return outcome

            def body(w):
                for k in adds:
                    w.add_document(k=k, t=[u"a", u"b"], n=len(k))
                for k in dels:
                    w.delete_by_term("k", k)

            if front == "with":
                try:
                    with w:
                        body(w)
                        if script["end"] != "commit":
                            raise ValueError("leave the with-block")
                    outcome = "committed"
                except ValueError:
                    outcome = "raised"
            elif front == "buffered":
                body(w)
                w.close()      # a BufferedWriter can only be closed, which commits
                outcome = "committed"
            elif front == "async":
                body(w)
                if w.writer is None:
                    # buffered: the retry thread will get the lock when the holder lets go
                    w.commit(**ck_args)
                    pending_async.append((owner, w, adds, dels))
                    outcome = "async_pending"
                else:
                    w.commit(**ck_args)
                    outcome = "committed"
            else:
                body(w)
                if script["end"] == "commit":
                    w.commit(**ck_args)
                    outcome = "committed"
                else:
                    w.cancel()
                    outcome = "cancelled"
                if depth == 0 and front == "seg":
                    finished_writers.append(w)
            attempts.append({"owner": owner, "held": held_at_start, "outcome": outcome,
                             "elapsed": time.time() - t0, "timeout": script["timeout"]})
            if outcome == "committed":
                log.append((owner, adds, dels))
            return outcome

        pending_async = []
        finished_writers = []
        waiter = {}
        recreated = []
        nestset = set(case["nest_at"])

        def forked_rival(owner, script):
            """The same rival in a child process (process-level exclusion); reports through a file."""
            res = os.path.join(d, "child_%s.json" % owner)
            sys.stdout.flush()
            sys.stderr.flush()
            pid = os.fork()
            if pid == 0:
                code = 3
                try:
                    cix = FileStorage(path).open_index()
                    adds = keys_of(owner, script)
                    try:
                        w = cix.writer(timeout=script["timeout"], delay=0.01)
                    except LockError:
                        json.dump({"outcome": "lockerror"}, open(res, "w"))
                        code = 0
                    else:
                        for k in adds:
                            w.add_document(k=k, t=[u"a", u"b"], n=len(k))
                        if script["end"] == "commit":
                            w.commit(merge=False)
                            json.dump({"outcome": "committed"}, open(res, "w"))
                        else:
                            w.cancel()
                            json.dump({"outcome": "cancelled"}, open(res, "w"))
                        code = 0
                except BaseException:
                    try:
                        traceback.print_exc(file=open(res + ".err", "w"))
                    except BaseException:
                        pass
                finally:
                    os._exit(code)
            _, status = os.waitpid(pid, 0)
            if os.waitstatus_to_exitcode(status) != 0:
                err = open(res + ".err").read() if os.path.exists(res + ".err") else ""
                if "whoosh" in err:
                    out.fail("c04.rival_process_crashed", {"owner": owner, "error": err[-600:]})
                    return None
                raise HarnessError("rival child failed: " + err[-800:])
            return json.load(open(res))["outcome"]

        async_marks = sorted(set(case["async_at"]))

        bystander = {}

        def start_bystander():
            rfd, wfd = os.pipe()
            sys.stdout.flush()
            sys.stderr.flush()
            pid = os.fork()
            if pid == 0:
                try:
                    os.close(wfd)
                    os.read(rfd, 1)   # returns when the parent closes its end
                finally:
                    os._exit(0)
            os.close(rfd)
            bystander["pid"], bystander["wfd"] = pid, wfd

        def stop_bystander():
            if bystander:
                os.close(bystander["wfd"])
                os.waitpid(bystander["pid"], 0)
                bystander.clear()

        main_pid = os.getpid()

        def a_tick(idx, kind, name):
            if os.getpid() != main_pid:
                return   # a sub-process of the multi-process writer: only the parent's operations are boundaries
            counter["n"] += 1
            j = idx
            if (not ram) and case.get("bystander_at") == j and mon.holder == "A":
                start_bystander()
                out.label("bystander_process_forked_while_writer_open")
            owner = "B%d" % j
            held = mon.holder is not None
            if case.get("waiter_at") == j and mon.holder == "A" and not waiter and not case.get("recreate_at"):
                import threading

                def wait_and_write():
                    try:
                        wst, _ = storage_for("W")
                        wix = wst.open_index()
                        ww = wix.writer(timeout=60, delay=0.01)
                        ww.add_document(k=u"W_0", t=[u"a", u"b"], n=3)
                        ww.commit(merge=False)
                        waiter["outcome"] = "committed"
                    except LockError:
                        waiter["outcome"] = "lockerror"
                    except Exception as e:
                        waiter["error"] = "".join(traceback.format_exception(type(e), e, e.__traceback__))[-900:]
                waiter["thread"] = threading.Thread(target=wait_and_write, daemon=True)
                waiter["thread"].start()
                out.label("writer_waiting_for_the_lock")
            if case.get("recreate_at") == j and mon.holder == "A" and not recreated:
                recreated.append(j)
                out.label("index_recreated_while_writer_open")
                rst, _ = storage_for("R%d" % j)
                rix = rst.create_index(schema)
                t0 = time.time()
                try:
                    rw = rix.writer(timeout=0)
                except LockError:
                    oc = "lockerror"
                else:
                    oc = "admitted"
                    rw.cancel()
                attempts.append({"owner": "R%d" % j, "held": True, "outcome": oc, "elapsed": time.time() - t0,
                                 "timeout": 0, "after_recreate": True})
                return
            script = dict(case["B"])
            if j % 16 != 3:
                script["timeout"] = 0   # waiting out a timeout costs real time: only every 16th rival does
            if script["front"] == "async" and (len(pending_async) >= 3 or
                                               not any(j % 37 == int(f * 36) for f in async_marks)):
                # AsyncWriter rivals (one retry thread each) only at the generated boundaries, at most three per case
                script["front"] = "seg"
            t0 = time.time()
            if (not ram) and j % case["fork_every"] == 2 and script["front"] in ("seg", "with"):
                oc = forked_rival(owner, script)
                if oc is None:
                    return
                attempts.append({"owner": owner, "held": held, "outcome": oc, "elapsed": time.time() - t0,
                                 "timeout": script["timeout"], "process": True})
                if oc == "committed":
                    log.append((owner, keys_of(owner, script), []))
                return
            if j in nestset:
                def b_tick(bidx, bkind, bname):
                    if bidx in (0, 1, 5) or bkind in ("rename", "lock_release"):
                        run_script("C%d_%d" % (j, bidx), case["C"], depth=2)
                run_script(owner, script, on_tick=b_tick, depth=1)
            else:
                run_script(owner, script, depth=1)

        try:
            run_script("A", case["A"], on_tick=a_tick, depth=0)
        except Exception as e:
            stop_bystander()
            if waiter:
                waiter["thread"].join(30)
            for _, aw, _, _ in pending_async:
                aw.join(10)   # no thread outlives the case
            if recreated:
                # files vanishing under the interrupted writer (the re-creation deleted them) are not the subject;
                # the lock verdict was already recorded
                out.exclude("main_writer_failed_after_index_recreated")
                if any(a.get("after_recreate") and a["outcome"] != "lockerror" for a in attempts):
                    out.fail("c04.second_writer_admitted_while_lock_held", [a for a in attempts if a.get("after_recreate")][0])
                return
            from wv.runner import _is_whoosh_frame
            tb = traceback.extract_tb(e.__traceback__)
            if not any(_is_whoosh_frame(f) for f in tb):
                raise
            out.fail("c04.main_writer_raises:%s" % type(e).__name__,
                     {"error": "".join(traceback.format_exception(type(e), e, e.__traceback__))[-900:]})
            return
        if waiter:
            waiter["thread"].join(180)
            if waiter["thread"].is_alive():
                out.exclude("waiting_writer_still_waiting_after_180s")
                stop_bystander()
                for _, aw, _, _ in pending_async:
                    aw.join(10)
                return
            if "error" in waiter:
                out.fail("c04.waiting_writer_fails", {"error": waiter["error"]})
                stop_bystander()
                for _, aw, _, _ in pending_async:
                    aw.join(10)
                return
            if waiter.get("outcome") == "committed":
                log.append(("W", ["W_0"], []))
        # the retry threads of AsyncWriter rivals can now get the lock, one after the other
        # The retry threads now compete for the lock.  Wait for them; meanwhile tell a busy lock (some thread holds it
        # according to the monitor) from a leaked one (nobody holds it, yet it cannot be had), so that a leak is
        # reported at once instead of being waited out.  Slowness alone is never a violation.
        if pending_async:
            pst, _ = storage_for("probe")
            pix = pst.open_index()
            nobody = 0
            deadline = time.time() + 600
            while any(aw.is_alive() for _, aw, _, _ in pending_async) and time.time() < deadline:
                try:
                    pw = pix.writer(timeout=0)
                    pw.cancel()
                    nobody = 0
                except LockError:
                    nobody = nobody + 1 if mon.holder is None else 0
                if nobody >= 30:
                    out.fail("c04.lock_still_held_after_all_writers_finished",
                             {"holder": None, "async_rivals_waiting": [o for o, aw, _, _ in pending_async if aw.is_alive()]})
                    for _, aw, _, _ in pending_async:
                        aw.running = False
                    stop_bystander()
                    return
                time.sleep(0.05)
        inconclusive = False
        for owner, aw, adds, dels in pending_async:
            if aw.is_alive():
                inconclusive = True
                out.exclude("async_rival_still_waiting_after_600s")
                continue
            log.append((owner, adds, dels))
            out.label("async_rival_waited_for_lock")
        if inconclusive:
            stop_bystander()
            return
        # a stale cancel() on the finished main writer (a `finally: w.cancel()`) while the next writer is open must not
        # disturb that writer or let a third one in
        if finished_writers and case.get("stale_cancel") and not recreated:
            out.label("stale_cancel_on_finished_writer")
            dst, _ = storage_for("D")
            dix = dst.open_index()
            try:
                dw = dix.writer(timeout=0)
            except LockError:
                out.fail("c04.lock_still_held_after_all_writers_finished", {"holder": mon.holder})
                stop_bystander()
                return
            try:
                finished_writers[0].cancel()
            except Exception:
                pass   # refusing (the unchanged tree raises IndexingError) is fine
            est, _ = storage_for("E")
            try:
                ew = est.open_index().writer(timeout=0)
            except LockError:
                pass
            else:
                out.fail("c04.second_writer_admitted_while_lock_held", {"owner": "E", "held_by": "D", "after": "stale cancel() of a finished writer"})
                ew.cancel()
            try:
                dw.add_document(k=u"D_0", t=[u"a", u"b"], n=3)
                dw.commit(merge=False)
                log.append(("D", ["D_0"], []))
            except Exception as e:
                out.fail("c04.writer_fails_after_stale_cancel_of_another:%s" % type(e).__name__,
                         {"error": "".join(traceback.format_exception(type(e), e, e.__traceback__))[-700:]})
                stop_bystander()
                return
        # after everything: the lock is free
        vst, _ = storage_for("verify")
        vix = vst.open_index()
        try:
            w = vix.writer(timeout=0)
            w.cancel()
        except LockError:
            out.fail("c04.lock_still_held_after_all_writers_finished", {"holder": mon.holder})
        # admitted / refused
        refused = admitted = 0
        for a in attempts:
            if a["owner"] == "A":
                continue
            if a["held"]:
                if a["outcome"] != "lockerror" and a["outcome"] != "async_pending":
                    out.fail("c04.second_writer_admitted_while_lock_held", a)
                elif a["outcome"] == "lockerror":
                    refused += 1
                    if a["elapsed"] < a["timeout"] * 0.9:
                        out.fail("c04.lockerror_before_timeout", a)
            else:
                if a["outcome"] == "lockerror":
                    out.fail("c04.writer_refused_while_lock_free", a)
                else:
                    admitted += 1
        if recreated:
            # what the re-created index holds once the interrupted writer finishes is not the property's subject
            vix.close()
            stop_bystander()
            out.units = len(attempts)
            out.nontrivial = refused > 0
            out.key = case
            return
        # no committed update is lost
        for owner, adds, dels in log:
            for k in dels:
                model.pop(k, None)
            for k in adds:
                model[k] = True
        r = vix.reader()
        try:
            got = sorted(sf["k"] for sf in r.all_stored_fields())
        finally:
            r.close()
        if got != sorted(model):
            out.fail("c04.committed_update_lost_or_resurrected",
                     {"missing": sorted(set(model) - set(got))[:8], "unexpected": sorted(set(got) - set(model))[:8],
                      "commits": [o for o, _, _ in log]})
        latest = vix.latest_generation()
        if latest != gen0 + len(log):
            out.fail("c04.generation_not_advanced_by_one_per_commit", {"latest": latest, "initial": gen0, "commits": len(log)})
        vix.close()
        stop_bystander()
    out.units = len(attempts)
    out.nontrivial = refused > 0 and admitted > 0
    out.key = case
    out.label("A_" + case["A"]["front"] + "_" + case["A"]["end"], "store_" + case["store"])
    if any(a.get("process") for a in attempts):
        out.label("rival_processes")
    if refused:
        out.label("rival_refused")
    if admitted:
        out.label("rival_admitted")


SUBS = {
    "rivals": Sub(run, strategy, quick=12, thorough=200, quick_shards=8, case_timeout=600),
}
