"""C16 - the query parser accepts any input and honours the documented language."""
import datetime

from hypothesis import strategies as st

from whoosh import fields, query, qparser, analysis
from whoosh.qparser import plugins as qplugins
from whoosh.qparser.dateparse import DateParserPlugin
from whoosh.filedb.filestore import RamStorage

from wv.runner import Sub
from wv.refquery import ref_eval, to_whoosh

PROP = "C16"
LEVEL = "exploration"
RULE = ("(0) matrix - every parser configuration x every field prefix (each field type, no prefix, an unknown field) x 46 "
        "construct templates (words, numbers, date words, phrases with and without slop, wildcards, fuzzy, boosts, ranges "
        "of every bracket form and open end, comparison operators, groups, malformed pieces) enumerated completely, same "
        "oracle as (1). (1) totality - input strings are generated from a token-soup grammar (operators in both cases, brackets, "
        "quotes, colons, carets, tildes, < > =, TO, * ? [ ], field names of every field type incl. numeric / float / "
        "decimal / date / boolean / n-gram and an unknown field, numbers, date words, stop words, characters from all "
        "unicode planes, several whitespace kinds) mixed with arbitrary text, and parsed by each of 18 parser "
        "configurations (default, OrGroup, OrGroup.factory, Multifield, Simple, DisMax, and the default set extended with "
        "Prefix, Regex, FuzzyTerm, GtLt, PlusMinus, Sequence replacing Phrase, FieldAlias, CopyField, PseudoField, "
        "Function, SingleQuote, DateParser with a fixed base date, and all of them at once). parse() must return a Query "
        "or raise QueryParserError only; searching the result on a fixed index of all field types must return or raise "
        "QueryError only. (2) meaning - an intended query tree over a keyword-analysed corpus is rendered to a query "
        "string with the documented precedence (NOT > AND > OR > ANDNOT/ANDMAYBE/REQUIRE parenthesised; implicit "
        "grouping outermost; field prefixes and field groups, phrases with slop, ranges in all bracket forms, wildcards, "
        "boosts; DATETIME terms and ranges typed as YYYY[MM[DD[hh[mm[ss]]]]] at every precision over datetimes clustered "
        "around one instant; one-sided ranges typed with the GtLtPlugin's six comparison spellings) and the parsed query must select exactly the documents the reference evaluator selects for the tree. "
        "Non-trivial: totality = a string yielding >=2 syntax node kinds; meaning = a tree mixing >=2 operator kinds "
        "whose result is neither empty nor everything. Distinct by SHA-1 of the case.")
ASSUMPTIONS = [
    "the property statement's precedence is the authority where docs/source/querylang.rst glosses 'a AND b OR c' "
    "differently; the renderer always parenthesises as the statement requires",
    "a time budget per search is not used: the fixed index is tiny",
]

BASEDATE = datetime.datetime(2010, 6, 15, 12, 30)


def parser_schema():
    return fields.Schema(
        text=fields.TEXT, title=fields.TEXT(stored=True), kw=fields.KEYWORD(commas=True), id=fields.ID(stored=True),
        num=fields.NUMERIC(int), fl=fields.NUMERIC(float), dec=fields.NUMERIC(int, decimal_places=2),
        date=fields.DATETIME, flag=fields.BOOLEAN, ng=fields.NGRAM(minsize=2, maxsize=3),
        ngw=fields.NGRAMWORDS(minsize=2, maxsize=3), st=fields.STORED)


_IX = {}


def fixed_index():
    if "ix" not in _IX:
        ix = RamStorage().create_index(parser_schema())
        w = ix.writer()
        w.add_document(text=u"alfa bravo charlie the quick", title=u"first title", kw=u"red,green", id=u"a1", num=5,
                       fl=2.5, dec="1.25", date=datetime.datetime(2010, 6, 1), flag=True, ng=u"hello", ngw=u"hello world")
        w.add_document(text=u"bravo delta render shading", title=u"second", kw=u"blue", id=u"b2", num=-3, fl=-1e5,
                       dec="-0.05", date=datetime.datetime(2001, 2, 3, 4, 5, 6), flag=False, ng=u"world", ngw=u"shade")
        w.add_document(text=u"modeling render to and or not", title=u"third and last", id=u"c3", num=100)
        w.commit()
        _IX["ix"] = ix
    return _IX["ix"]


def _fn(qs, *args, **kwargs):
    qs = [q for q in qs if q is not None]  # (sub-nodes that produce no query are passed as None)
    return query.Or(qs) if qs else query.NullQuery


CONFIGS = ["default", "orgroup", "orfactory", "multifield", "simple", "dismax", "prefix", "regex", "fuzzy", "gtlt",
           "plusminus", "sequence", "alias", "copyfield", "pseudo", "function", "singlequote", "dateparser", "all"]


def make_parser(name):
    schema = parser_schema()
    if name == "orgroup":
        return qparser.QueryParser("text", schema, group=qparser.OrGroup)
    if name == "orfactory":
        return qparser.QueryParser("text", schema, group=qparser.OrGroup.factory(0.9))
    if name == "multifield":
        return qparser.MultifieldParser(["text", "title", "num"], schema, fieldboosts={"title": 2.0})
    if name == "simple":
        return qparser.SimpleParser("text", schema)
    if name == "dismax":
        return qparser.DisMaxParser({"text": 1.0, "title": 1.5}, schema)
    p = qparser.QueryParser("text", schema)
    adders = {
        "prefix": lambda: p.add_plugin(qplugins.PrefixPlugin()),
        "regex": lambda: p.add_plugin(qplugins.RegexPlugin()),
        "fuzzy": lambda: p.add_plugin(qplugins.FuzzyTermPlugin()),
        "gtlt": lambda: p.add_plugin(qplugins.GtLtPlugin()),
        "plusminus": lambda: p.add_plugin(qplugins.PlusMinusPlugin()),
        "sequence": lambda: (p.remove_plugin_class(qplugins.PhrasePlugin), p.add_plugin(qplugins.SequencePlugin())),
        "alias": lambda: p.add_plugin(qplugins.FieldAliasPlugin({"text": ["body", "t"], "num": ["number"]})),
        "copyfield": lambda: p.add_plugin(qplugins.CopyFieldPlugin({"text": "title", "id": "kw"})),
        "pseudo": lambda: p.add_plugin(qplugins.PseudoFieldPlugin({"special": lambda node: None,
                                                                  "upper": lambda node: node})),
        "function": lambda: p.add_plugin(qplugins.FunctionPlugin({"f": _fn, "g": _fn})),
        "singlequote": lambda: p.add_plugin(qplugins.SingleQuotePlugin()),
        "dateparser": lambda: p.add_plugin(DateParserPlugin(basedate=BASEDATE)),
    }
    if name == "default":
        return p
    if name == "all":
        for k in ["prefix", "regex", "fuzzy", "gtlt", "plusminus", "alias", "copyfield", "pseudo", "function",
                  "singlequote", "dateparser"]:
            adders[k]()
        return p
    adders[name]()
    return p


WORDS = ["alfa", "bravo", "render", "shading", "a", "the", "to", "and", "or", "not", "AND", "OR", "NOT", "ANDNOT",
         "ANDMAYBE", "REQUIRE", "TO", "And", "hello", "5", "-3", "2.5", "1e5", "1.25", "abc", "true", "false", "yes", "t",
         "2001", "20010203", "2001-02-03", "2010-06", "today", "yesterday", "now", "tomorrow", "midnight", "jan", "3pm",
         "-1d", "+2 weeks", "next friday", "É", "中文", "\U0001f600", "́", "퟿"]
FIELDS = ["text:", "title:", "num:", "fl:", "dec:", "date:", "flag:", "ng:", "ngw:", "kw:", "id:", "st:", "nosuch:",
          "body:", "number:", "special:", "upper:", "*:", ":"]
PUNCT = ["(", ")", "[", "]", "{", "}", '"', "'", "^", "~", "*", "?", "<", ">", "=", "<=", ">=", "+", "-", ".", ",", "/",
         "\\", "|", "&", "#", "#f", "#g[", "r\"", "~2", "~1/2", "^2", "^0.5", "^x", "\"~3", " TO ", " to ", "..", "*:*"]
SNIPPETS = ["date:[foo TO bar]", "num:[a TO b]", "dec:[abc TO 3]", "fl:[x TO]", ">5 a", "date:>=2001", "num:<3",
            "st:\"x y\"", "(+a -b)", "a -b -c", "+a b", "date:[2001 TO foo]", "flag:maybe", "ng:h", "[TO]", "[ TO ]",
            "a^", "^2", "a~", "a~9999", "\"a b\"~", "a:b:c", "((a)", "a))", "\"unterminated", "r\"[\"", "a AND", "OR b",
            "NOT", "a ANDNOT", "#f[x](a)", "'quo ted'", "title:(a b", "*", "?", "**", "a*b?c"]
SPACES = [" ", " ", " ", "\t", "\n", "　", " ", ""]

piece_s = st.one_of(st.sampled_from(WORDS), st.sampled_from(WORDS[:16]), st.sampled_from(FIELDS), st.sampled_from(PUNCT),
                    st.sampled_from(SNIPPETS),
                    st.sampled_from(PUNCT[:12]), st.sampled_from(SPACES),
                    st.text(max_size=4), st.text(alphabet='ab"()[]:^~*? ', max_size=5))


def totality_strategy(tier):
    soup = st.lists(piece_s, min_size=1, max_size=14).map("".join)
    return st.fixed_dictionaries({
        "qstring": st.one_of(soup, soup, soup, st.text(max_size=30)),
        "config": st.sampled_from(CONFIGS),
    })


def _walk_query(q):
    yield q
    for c in q.children():
        for x in _walk_query(c):
            yield x


def run_totality(case, out):
    ix = fixed_index()
    qs = case["qstring"]
    parser = make_parser(case["config"])
    try:
        q = parser.parse(qs)
    except qparser.QueryParserError:
        out.label("rejected_with_QueryParserError")
        out.nontrivial = True
        return
    except RecursionError:
        out.exclude("recursion_limit")
        return
    if not isinstance(q, query.Query):
        out.fail("c16.parse_returned_non_query", {"q": qs, "config": case["config"], "type": type(q).__name__})
        return
    # a fuzzy term with a large maximum distance (word~9) is answered, but the automaton it needs grows ~6x per unit
    # of distance (minutes for ~8 on a 16-letter word): such queries are parsed but not executed here (C19 covers
    # distances 0..3)
    if any(isinstance(x, query.FuzzyTerm) and x.maxdist > 3 for x in _walk_query(q)):
        out.exclude("fuzzy_maxdist_over_3_not_searched")
        out.nontrivial = True
        return
    with ix.searcher() as s:
        try:
            r = s.search(q, limit=5)
            len(r)
            [h.docnum for h in r]
        except query.QueryError:
            out.label("search_raised_QueryError")
    kinds = set()
    try:
        tagged = parser.tag(qs)
        for n in tagged:
            kinds.add(type(n).__name__)
    except Exception:
        pass
    out.nontrivial = len(kinds - {"Whitespace"}) >= 2
    out.label("config_" + case["config"])


# every construct of the language on every field type: the systematic part of totality (the token soup only meets a
# given field type x construct pair by chance)
FIELD_PREFIXES = ["", "text:", "title:", "kw:", "id:", "num:", "fl:", "dec:", "date:", "flag:", "ng:", "ngw:", "st:", "nosuch:"]
CONSTRUCTS = ["alfa", "5", "-3.5", "true", "2010", "'june 2010'", '"alfa bravo"', '"alfa bravo"~3', '"~3"~3', '"5"', '""',
              "alf*", "a?fa", "*", "?", "alfa~", "alfa~2/2", "alfa^2", "alfa^x", "[a TO z]", "{a TO z}", "[TO z]", "[a TO]",
              "[1 TO 10]", "{-5 TO 5]", "[2001 TO 2011]", "[true TO false]", "[a TO", "TO]", ">5", "<=alfa", ">", "(alfa bravo)",
              "(alfa OR 5)^2", "NOT alfa", "alfa AND", "+alfa -bravo", "r\"al.a\"", "r\"[\"", "alfa:bravo", "\u00e9t\u00e9",
              "\U0001f600", "alfa ANDNOT [1 TO 2]", "'unterminated", "<alfa>", "a" * 300,
              # what the sequence plugin finds between quotes
              '"alfa [a TO z]"', '"alf* bravo"', '"alfa~ bravo"', '"(alfa OR bravo) charlie"', '"NOT alfa"', '"[TO]"', '"*"',
              '"5 [1 TO 10]"', '"alfa bravo"~2', '"num:5 alfa"', '"flag:true alfa"', '"date:2010 x"', '"~3[TO]*"']


def matrix_enum(tier, shard, nshards):
    i = 0
    for cfg in CONFIGS:
        for fp in FIELD_PREFIXES:
            for c in CONSTRUCTS:
                if i % nshards == shard:
                    yield {"qstring": fp + c, "config": cfg}
                i += 1


# ---------------------------------------------------------------------------------------------------- meaning

MW = ["alfa", "bravo", "charlie", "delta", "echo", "al", "alf"]


SW = ["the", "of", "it", "m", "bravo", "tango", "sierra", "uniform"]   # for the stop-filtered field s


# datetimes clustered around one instant so that every precision of a typed date (year ... second) separates some
# of them from the others: same minute / other second, same hour / other minute, ... , other year
MDATES = [[2010, 2, 3, 4, 5, 6], [2010, 2, 3, 4, 5, 0], [2010, 2, 3, 4, 5, 59], [2010, 2, 3, 4, 6, 6], [2010, 2, 3, 4, 4, 59],
          [2010, 2, 3, 5, 5, 6], [2010, 2, 3, 0, 0, 0], [2010, 2, 3, 23, 59, 59], [2010, 2, 4, 4, 5, 6], [2010, 2, 28, 23, 59, 59],
          [2010, 3, 1, 0, 0, 0], [2010, 1, 31, 4, 5, 6], [2010, 12, 31, 23, 59, 59], [2011, 1, 1, 0, 0, 0], [2009, 2, 3, 4, 5, 6]]
DPREC = [4, 6, 8, 10, 12, 14, 14, 12]
MDATES_W = MDATES[:5] * 4 + MDATES      # the finest distinctions (second, minute) need the densest cluster


def date_text(dt, digits):
    return ("%04d%02d%02d%02d%02d%02d" % tuple(dt))[:digits]


def date_floor(dt, digits):
    n = (digits - 2) // 2          # number of given components
    return list(dt[:n]) + [1, 1, 0, 0, 0][n - 1:]


def date_ceil(dt, digits):
    import calendar
    n = (digits - 2) // 2
    r = list(dt[:n])
    for i in range(n, 6):
        if i == 1:
            r.append(12)
        elif i == 2:
            r.append(calendar.monthrange(r[0], r[1])[1])
        else:
            r.append([23, 59, 59][i - 3])
    return r


def mdoc_s():
    return st.fixed_dictionaries({"t": st.lists(st.sampled_from(MW), min_size=0, max_size=5),
                                  "s": st.lists(st.sampled_from(SW), min_size=0, max_size=4),
                                  "f": st.sampled_from([None, True, False]),
                                  "w": st.lists(st.sampled_from(["x", "y", "z"]), max_size=2, unique=True),
                                  "n": st.one_of(st.none(), st.integers(-5, 5)),
                                  "d": st.one_of(st.none(), st.sampled_from(MDATES_W), st.sampled_from(MDATES_W))})


def fgroup_tree_s():
    word = st.builds(lambda x: {"op": "term", "f": "w", "x": x}, st.sampled_from(["x", "y", "z"]))

    def extend(ch):
        return st.one_of(
            st.builds(lambda qs: {"op": "and", "qs": qs}, st.lists(ch, min_size=2, max_size=3)),
            st.builds(lambda qs: {"op": "or", "qs": qs}, st.lists(ch, min_size=2, max_size=3)),
            st.builds(lambda q: {"op": "not", "q": q}, ch),
            st.builds(lambda qs: {"op": "implicit", "qs": qs}, st.lists(ch, min_size=2, max_size=3)),
        )
    return st.recursive(word, extend, max_leaves=5).filter(lambda t: t["op"] != "term")


def mleaf_s():
    word = st.sampled_from(MW[:5])
    return st.one_of(
        st.builds(lambda x: {"op": "term", "f": "t", "x": x}, word),
        st.builds(lambda x: {"op": "term", "f": "t", "x": x}, word),
        st.builds(lambda x: {"op": "term", "f": "w", "x": x}, st.sampled_from(["x", "y", "z"])),
        st.builds(lambda ws, sl: {"op": "phrase", "f": "t", "words": ws, "slop": sl},
                  st.lists(word, min_size=2, max_size=3), st.sampled_from([1, 2, 3, 12, 10])),
        st.builds(lambda ws, sl: {"op": "phrase", "f": "t", "words": ws, "slop": sl},
                  st.lists(word, min_size=2, max_size=2, unique=True), st.sampled_from([10, 12, 25])),
        st.builds(lambda x: {"op": "prefix", "f": "t", "x": x}, st.sampled_from(["al", "alf", "b", "c"])),
        st.builds(lambda x: {"op": "wildcard", "f": "t", "x": x}, st.sampled_from(["a*a", "?l*", "*o", "al?a", "*l*"])),
        # (a range with neither bound is not part of the documented language: at least one bound is given)
        st.builds(lambda s, e, se, ee: {"op": "trange", "f": "t", "start": s, "end": (e if s is not None or e is not None else "e"),
                                        "se": se, "ee": ee},
                  st.sampled_from([None, "alfa", "bravo", "c"]), st.sampled_from([None, "charlie", "delta", "e"]),
                  st.booleans(), st.booleans()),
        # a range on an analysed field whose analyzer drops stop words and one-letter words: the bounds are what the
        # user typed (stop words included), the matched terms are the indexed ones
        st.builds(lambda s, e, se, ee: {"op": "trange", "f": "s", "start": s, "end": e, "se": se, "ee": ee},
                  st.sampled_from(["the", "of", "m", "sierra", "it"]), st.sampled_from([None, "zz", "tango", "the"]),
                  st.booleans(), st.booleans()),
        st.builds(lambda x: {"op": "term", "f": "s", "x": x}, st.sampled_from(["bravo", "tango", "sierra"])),
        # a BOOLEAN field: true / false / any value
        st.builds(lambda x: {"op": "bool", "x": x}, st.sampled_from(["true", "false", "*"])),
        st.builds(lambda s, e, se, ee: {"op": "nrange", "f": "n", "start": s, "end": (e if s is not None or e is not None else 0),
                                        "se": se, "ee": ee},
                  st.one_of(st.none(), st.integers(-5, 5)), st.one_of(st.none(), st.integers(-5, 5)),
                  st.booleans(), st.booleans()),
        # a DATETIME field: YYYY[MM[DD[hh[mm[ss]]]]] means every datetime in that year / month / ... / second
        # (docs/source/dates.rst), and a range runs from the start of its first to the end of its last period
        st.builds(lambda dt, p: {"op": "dterm", "dt": dt, "p": p}, st.sampled_from(MDATES_W), st.sampled_from(DPREC)),
        st.builds(lambda a, pa, b, pb: {"op": "dtrange", "a": a, "pa": pa, "b": b, "pb": pb},
                  st.one_of(st.none(), st.sampled_from(MDATES_W)), st.sampled_from(DPREC),
                  st.sampled_from(MDATES_W), st.sampled_from(DPREC)),
        # a field prefix on a parenthesised group reaches every bare word inside it, nested groups included
        st.builds(lambda g: {"op": "fgroup", "f": "w", "q": g}, fgroup_tree_s()),
        # one-sided ranges typed with a comparison operator (GtLtPlugin: > < >= <= => =<, after a field name)
        st.builds(lambda f, rel, x: {"op": "cmp", "f": f, "rel": rel, "x": x[0 if f == "n" else 1]},
                  st.sampled_from(["n", "n", "t"]), st.sampled_from([">", "<", ">=", "<=", "=>", "=<"]),
                  st.tuples(st.integers(-5, 5), st.sampled_from(["alfa", "bravo", "c", "delta"]))),
    )


def mtree_s():
    # boosts as documented: on words and on parenthesised groups
    leaf = st.builds(lambda q, b: dict(q, boost=(b if q["op"] == "term" else None)), mleaf_s(),
                     st.sampled_from([None, None, None, 2, 0.5]))

    def extend(ch):
        return st.one_of(
            st.builds(lambda qs: {"op": "and", "qs": qs}, st.lists(ch, min_size=2, max_size=3)),
            st.builds(lambda qs: {"op": "or", "qs": qs}, st.lists(ch, min_size=2, max_size=3)),
            st.builds(lambda q: {"op": "not", "q": q}, ch),
            st.builds(lambda a, b: {"op": "andnot", "a": a, "b": b}, ch, ch),
            st.builds(lambda a, b: {"op": "andmaybe", "a": a, "b": b}, ch, ch),
            st.builds(lambda a, b: {"op": "require", "a": a, "b": b}, ch, ch),
            st.builds(lambda qs: {"op": "implicit", "qs": qs}, st.lists(ch, min_size=2, max_size=3)),
        )
    return st.recursive(leaf, extend, max_leaves=6)


def meaning_strategy(tier):
    return st.fixed_dictionaries({
        "docs": st.lists(mdoc_s(), min_size=1, max_size=10),
        "tree": mtree_s(),
        "group": st.sampled_from(["and", "or"]),
        "upper": st.booleans(),
        "fieldgroup": st.booleans(),
    })


PREC = {"implicit": 0, "binary": 1, "or": 2, "and": 3, "not": 4, "leaf": 5}


def render(q, case, ctx_field="t"):
    """returns (string, precedence level)"""
    op = q["op"]
    kw = (lambda s: s) if case["upper"] else (lambda s: s)  # operators are upper case in the documented language

    def fld(f, body):
        return body if f == ctx_field else "%s:%s" % (f, body)

    def boost(s, q, atomic):
        b = q.get("boost")
        if b is None:
            return s
        if not atomic:
            s = "(%s)" % s
        return "%s^%s" % (s, b)

    if op == "term":
        return boost(fld(q["f"], q["x"]), q, True), PREC["leaf"]
    if op == "bool":
        return "f:" + q["x"], PREC["leaf"]
    if op == "phrase":
        s = '"%s"' % " ".join(q["words"])
        if q.get("slop", 1) != 1:
            s += "~%d" % q["slop"]
        return boost(fld(q["f"], s), q, True), PREC["leaf"]
    if op == "prefix":
        return boost(fld(q["f"], q["x"] + "*"), q, True), PREC["leaf"]
    if op == "wildcard":
        return boost(fld(q["f"], q["x"]), q, True), PREC["leaf"]
    if op == "dterm":
        return "d:" + date_text(q["dt"], q["p"]), PREC["leaf"]
    if op == "dtrange":
        lo = "" if q["a"] is None else date_text(q["a"], q["pa"]) + " "
        return "d:[%sTO %s]" % (lo, date_text(q["b"], q["pb"])), PREC["leaf"]
    if op == "cmp":
        return "%s:%s%s" % (q["f"], q["rel"], q["x"]), PREC["leaf"]
    if op == "fgroup":
        # inside the group the words are bare: the group's field is their context
        inner, _ = render(q["q"], case, ctx_field=q["f"])
        return "%s:(%s)" % (q["f"], inner), PREC["leaf"]
    if op in ("trange", "nrange"):
        # open ends exactly as documented in querylang.rst: "[apple TO]" and "[TO bear]"
        lo = "" if q["start"] is None else "%s " % q["start"]
        hi = "" if q["end"] is None else " %s" % q["end"]
        s = "%s%sTO%s%s" % ("{" if q["se"] else "[", lo, hi, "}" if q["ee"] else "]")
        return boost(fld(q["f"], s), q, True), PREC["leaf"]

    def sub(child, minprec):
        s, p = render(child, case, ctx_field)
        if p < minprec:
            return "(%s)" % s
        return s

    if op == "not":
        return "NOT " + sub(q["q"], PREC["leaf"]), PREC["not"]
    if op == "and":
        return " AND ".join(sub(c, PREC["not"]) for c in q["qs"]), PREC["and"]
    if op == "or":
        return " OR ".join(sub(c, PREC["and"]) for c in q["qs"]), PREC["or"]
    if op in ("andnot", "andmaybe", "require"):
        word = {"andnot": "ANDNOT", "andmaybe": "ANDMAYBE", "require": "REQUIRE"}[op]
        # binary operators are parenthesised when mixed with one another: operands at OR level or tighter
        return "%s %s %s" % (sub(q["a"], PREC["or"]), word, sub(q["b"], PREC["or"])), PREC["binary"]
    if op == "implicit":
        # implicit grouping is outermost: operands rendered at binary level or tighter... but adjacency binds loosest,
        # so every operand that is not atomic is parenthesised
        return " ".join(sub(c, PREC["not"]) for c in q["qs"]), PREC["implicit"]
    raise ValueError(op)


def to_ref(q, group):
    """the intended tree in refquery's vocabulary"""
    op = q["op"]
    if op == "implicit":
        return {"op": group, "qs": [to_ref(c, group) for c in q["qs"]]}
    if op in ("and", "or"):
        return {"op": op, "qs": [to_ref(c, group) for c in q["qs"]]}
    if op == "not":
        return {"op": "not", "q": to_ref(q["q"], group)}
    if op in ("andnot", "andmaybe", "require"):
        return {"op": op, "a": to_ref(q["a"], group), "b": to_ref(q["b"], group)}
    if op == "bool":
        # the BOOLEAN field f, modelled as a one-word text field fb holding "true" / "false"
        return {"op": "every", "f": "fb"} if q["x"] == "*" else {"op": "term", "f": "fb", "x": q["x"]}
    if op == "fgroup":
        return to_ref(q["q"], group)
    if op == "dterm":
        return {"op": "drange", "f": "d", "start": date_floor(q["dt"], q["p"]), "end": date_ceil(q["dt"], q["p"])}
    if op == "dtrange":
        return {"op": "drange", "f": "d", "start": None if q["a"] is None else date_floor(q["a"], q["pa"]),
                "end": date_ceil(q["b"], q["pb"])}
    if op == "cmp":
        lower = ">" in q["rel"]
        excl = "=" not in q["rel"]
        return {"op": "nrange" if q["f"] == "n" else "trange", "f": q["f"], "start": q["x"] if lower else None,
                "end": None if lower else q["x"], "se": lower and excl, "ee": (not lower) and excl}
    r = dict((k, v) for k, v in q.items() if k != "boost")
    return r


def ops_in(q):
    yield q["op"]
    for k in ("qs",):
        for c in q.get(k, []):
            for x in ops_in(c):
                yield x
    for k in ("q", "a", "b"):
        if isinstance(q.get(k), dict):
            for x in ops_in(q[k]):
                yield x


def run_meaning(case, out):
    schema = fields.Schema(k=fields.ID(stored=True), t=fields.TEXT(analyzer=analysis.SpaceSeparatedTokenizer(), phrase=True),
                           w=fields.KEYWORD, n=fields.NUMERIC(int), s=fields.TEXT(analyzer=analysis.StandardAnalyzer()),
                           f=fields.BOOLEAN, d=fields.DATETIME)
    ix = RamStorage().create_index(schema)
    w = ix.writer()
    docs = []
    for i, d in enumerate(case["docs"]):
        dd = dict(d, k="k%d" % i)
        kw = {"k": dd["k"]}
        if d.get("d") is not None:
            kw["d"] = datetime.datetime(*d["d"])
        if d.get("s"):
            kw["s"] = " ".join(d["s"])
        if d.get("f") is not None:
            kw["f"] = d["f"]
        dd["fb"] = [] if d.get("f") is None else ["true" if d["f"] else "false"]
        # what StandardAnalyzer indexes: no stop words, no one-letter words
        dd["s"] = [x for x in (d.get("s") or []) if x not in analysis.STOP_WORDS and len(x) >= 2]
        if d["t"]:
            kw["t"] = " ".join(d["t"])
        if d["w"]:
            kw["w"] = " ".join(d["w"])
        if d["n"] is not None:
            kw["n"] = d["n"]
        w.add_document(**kw)
        docs.append(dd)
    w.commit()
    tree = case["tree"]
    qstring, _ = render(tree, case)
    group = qparser.AndGroup if case["group"] == "and" else qparser.OrGroup
    parser = qparser.QueryParser("t", schema, group=group)
    if "cmp" in set(ops_in(tree)):
        parser.add_plugin(qplugins.GtLtPlugin())
    try:
        q = parser.parse(qstring)
    except qparser.QueryParserError as e:
        out.fail("c16.wellformed_expression_rejected", {"qstring": qstring, "err": repr(e)})
        return
    lo, hi = ref_eval(to_ref(tree, case["group"]), docs)
    with ix.searcher() as s:
        got = frozenset(h["k"] for h in s.search(q, limit=None))
    if got != lo:
        # the parser normalizes what it returns; the two recorded And.normalize() findings of C15 (range merge,
        # Every(field) absorption - pinned by the repository's tests) are attributed only when the un-normalized
        # parse is right and the structural trigger is present
        from wv.props.c15 import and_triggers
        q0 = parser.parse(qstring, normalize=False)
        with ix.searcher() as s:
            got0 = frozenset(h["k"] for h in s.search(q0, limit=None))
        trig = and_triggers(q0)
        if got0 == lo and trig:
            out.fail("c16.known:parser_normalize:" + "+".join(sorted(trig)),
                     {"qstring": qstring, "parsed": repr(q)[:300], "got": sorted(got), "expected": sorted(lo)})
            return
        out.fail("c16.meaning_differs",
                 {"qstring": qstring, "parsed": repr(q)[:300], "got": sorted(got), "expected": sorted(lo),
                  "group": case["group"]})
        return
    kinds = set(ops_in(tree)) & {"and", "or", "not", "andnot", "andmaybe", "require", "implicit"}
    out.nontrivial = len(kinds) >= 2 and 0 < len(lo) < len(docs)
    for k in set(ops_in(tree)):
        out.label("op_" + k)


# ---------------------------------------------------------------------------------------------------- + / - language

def plusminus_strategy(tier):
    item = st.tuples(st.sampled_from(["+", "-", "", ""]), st.sampled_from(MW[:5]))
    return st.fixed_dictionaries({
        "docs": st.lists(mdoc_s(), min_size=1, max_size=10),
        "items": st.lists(item.map(list), min_size=1, max_size=6),
        "parser": st.sampled_from(["simple", "dismax", "plugin"]),
    })


def run_plusminus(case, out):
    """PlusMinusPlugin / SimpleParser / DisMaxParser: '+' marks required, '-' prohibited terms in a flat OR query"""
    schema = fields.Schema(k=fields.ID(stored=True), t=fields.TEXT(analyzer=analysis.SpaceSeparatedTokenizer()))
    ix = RamStorage().create_index(schema)
    w = ix.writer()
    docs = []
    for i, d in enumerate(case["docs"]):
        w.add_document(k="k%d" % i, t=" ".join(d["t"]))
        docs.append(("k%d" % i, set(d["t"])))
    w.commit()
    qstring = " ".join(m + wd for m, wd in case["items"])
    if case["parser"] == "simple":
        parser = qparser.SimpleParser("t", schema)
    elif case["parser"] == "dismax":
        parser = qparser.DisMaxParser({"t": 1.0}, schema)
    else:
        parser = qparser.QueryParser("t", schema, group=qparser.OrGroup)
        parser.add_plugin(qplugins.PlusMinusPlugin())
    q = parser.parse(qstring)
    req = set(wd for m, wd in case["items"] if m == "+")
    ban = set(wd for m, wd in case["items"] if m == "-")
    opt = set(wd for m, wd in case["items"] if m == "")
    exp = set()
    for k, toks in docs:
        if toks & ban:
            continue
        if req:
            if req <= toks:
                exp.add(k)
        elif opt and (toks & opt):
            exp.add(k)
    with ix.searcher() as s:
        got = set(h["k"] for h in s.search(q, limit=None))
    if not req and not opt:
        out.exclude("only_prohibited_terms")  # nothing positive to match: meaning not defined by the docs
        return
    if got != exp:
        out.fail("c16.plusminus_meaning", {"qstring": qstring, "parser": case["parser"], "parsed": repr(q)[:200],
                                           "got": sorted(got), "expected": sorted(exp)})
    out.nontrivial = bool(ban) and len(ban) >= 1 and 0 < len(exp) < len(docs)
    if len(ban) >= 2:
        out.label("two_prohibited")


SUBS = {
    "plusminus": Sub(run_plusminus, plusminus_strategy, quick=150, thorough=2000, quick_shards=8),
    "matrix": Sub(run_totality, enum=matrix_enum, quick_shards=8),
    "totality": Sub(run_totality, totality_strategy, quick=500, thorough=8000, quick_shards=8),
    "meaning": Sub(run_meaning, meaning_strategy, quick=150, thorough=3000, quick_shards=8),
}
