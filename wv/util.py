import os
import shutil
import tempfile
import contextlib


@contextlib.contextmanager
def tempdir(prefix="wv_"):
    d = tempfile.mkdtemp(prefix=prefix)
    try:
        yield d
    finally:
        shutil.rmtree(d, ignore_errors=True)


def lb(s):
    """latin-1 str (JSON-able) -> bytes"""
    return s.encode("latin-1")


def bl(b):
    return bytes(b).decode("latin-1")
