"""Shared corpus model: schema, documents, histories, and the real-index builder.

A *history* is JSON: {"schema": {...}, "txs": [tx, ...]} with
  tx = {"ops": [op, ...], "end": "commit"|"cancel", "merge": bool, "optimize": bool,
        "blocklimit": int|None, "compound": bool}
  op = ["add", doc] | ["upd", doc] | ["delk", key] | ["delt", field, text] | ["delq", qjson] | ["deln", key]
  doc = {"k": "k7", "t": [tokens], "w": [tokens], "n": int|None, "d": int|None, "g": str|None}

The model keeps the *logical* index the documentation promises: live documents keyed by k.
Deletes and updates issued through a writer act on the committed documents only (the writer's searcher
sees the last commit), adds become visible at commit; cancel discards everything.
"""
import datetime
import collections

from whoosh import fields, index
from whoosh.filedb.filestore import RamStorage, FileStorage
from whoosh.codec.whoosh3 import W3Codec

BASE_DATE = datetime.datetime(2001, 2, 3, 4, 5, 6)


def to_date(n):
    return BASE_DATE + datetime.timedelta(days=n, microseconds=n * 7)


def build_schema(spec=None):
    spec = spec or {}
    s = fields.Schema(
        k=fields.ID(stored=True, unique=True),
        t=fields.TEXT(phrase=True, stored=False, vector=spec.get("t_vector", False),
                      field_boost=spec.get("t_boost", 1.0)),
        w=fields.KEYWORD(scorable=True, field_boost=spec.get("w_boost", 1.0)),
        n=fields.NUMERIC(int, bits=spec.get("n_bits", 32), signed=spec.get("n_signed", True),
                         shift_step=spec.get("n_step", 4), sortable=spec.get("n_sortable", True),
                         stored=True, unique=spec.get("n_unique", False)),
        d=fields.DATETIME(sortable=spec.get("d_sortable", False), stored=False),
        g=fields.ID(stored=True, sortable=spec.get("g_sortable", False)),
    )
    if spec.get("dyn_glob"):
        # a dynamic (glob) field: documents use concrete names such as a_dyn / b_dyn
        if spec.get("dyn_unstored"):
            # ... whose per-document data (length, vector, column) exists only under the concrete names
            s.add("*_dyn", fields.KEYWORD(stored=False, scorable=True, vector=True, sortable=True), glob=True)
        else:
            s.add("*_dyn", fields.KEYWORD(stored=True, scorable=True), glob=True)
    if spec.get("c_column"):
        # a field that is a column only (no postings, not stored)
        s.add("c", fields.COLUMN())
    return s


def doc_kwargs(doc):
    kw = {"k": doc["k"]}
    if doc.get("t"):
        kw["t"] = list(doc["t"])
    if doc.get("w"):
        kw["w"] = list(doc["w"])
    if doc.get("n") is not None:
        kw["n"] = doc["n"]
    if doc.get("d") is not None:
        kw["d"] = to_date(doc["d"])
    if doc.get("g") is not None:
        kw["g"] = doc["g"]
    if doc.get("c") is not None:
        kw["c"] = doc["c"].encode("utf8")
    for name, val in (doc.get("dyn") or {}).items():
        kw[name + "_dyn"] = list(val)
    if doc.get("boost") not in (None, 1.0):
        kw["_boost"] = doc["boost"]
    if doc.get("tboost") is not None:
        kw["_t_boost"] = doc["tboost"]
    return kw


class Model(object):
    def __init__(self):
        self.docs = collections.OrderedDict()  # key -> doc (live, committed)
        self.generation = 0
        self.ndeleted_total = 0

    def copy(self):
        m = Model()
        m.docs = collections.OrderedDict(self.docs)
        m.generation = self.generation
        m.ndeleted_total = self.ndeleted_total
        m.unique_n = getattr(self, "unique_n", False)
        return m

    def live(self):
        return list(self.docs.values())

    def keys(self):
        return set(self.docs)


def make_storage(kind, path=None):
    if kind == "ram":
        return RamStorage()
    return FileStorage(path, supports_mmap=(kind != "file_nommap"))


def create_index(kind, path, schema):
    st = make_storage(kind, path)
    if kind == "ram":
        return st.create_index(schema)
    return index.create_in(path, schema) if kind == "file" else st.create_index(schema)


def writer_kwargs(tx):
    kw = {}
    bl = tx.get("blocklimit")
    if bl:
        kw["codec"] = W3Codec(blocklimit=bl, compression=tx.get("compression", 3), inlinelimit=tx.get("inlinelimit", 1))
    if tx.get("compound") is False:
        kw["compound"] = False
    return kw


def commit_kwargs(tx):
    kw = {}
    if tx.get("optimize"):
        kw["optimize"] = True
    elif tx.get("merge") is False:
        kw["merge"] = False
    return kw


def apply_tx(ix, model, tx, refeval=None, to_query=None, writer=None, results=None):
    """Run one transaction on the real index and on the model (in place).

    results (optional list) collects the return values of delete_by_* with the model's expectation.
    """
    w = writer if writer is not None else ix.writer(**writer_kwargs(tx))
    committed = model.docs
    pending_del = set()
    pending_add = []
    try:
        for op in tx["ops"]:
            kind = op[0]
            if kind == "add":
                w.add_document(**doc_kwargs(op[1]))
                pending_add.append(op[1])
            elif kind == "upd":
                w.update_document(**doc_kwargs(op[1]))
                if op[1]["k"] in committed:
                    pending_del.add(op[1]["k"])
                if getattr(model, "unique_n", False) and op[1].get("n") is not None:
                    # every unique field is consulted: committed documents with the same n go too
                    for k2, d2 in committed.items():
                        if d2.get("n") == op[1]["n"]:
                            pending_del.add(k2)
                pending_add.append(op[1])
            elif kind == "delk":
                n = w.delete_by_term("k", op[1])
                exp = 1 if (op[1] in committed and op[1] not in pending_del) else 0
                if op[1] in committed:
                    pending_del.add(op[1])
                if results is not None:
                    results.append(("delk", op[1], n, exp))
            elif kind == "delt":
                n = w.delete_by_term(op[1], op[2])
                hit = set(k for k, d in committed.items() if op[2] in (d.get(op[1]) or []))
                exp = len(hit - pending_del)
                pending_del |= hit
                if results is not None:
                    results.append(("delt", op[1:], n, exp))
            elif kind == "delq":
                q = to_query(op[1])
                n = w.delete_by_query(q)
                lo, hi = refeval(op[1], list(committed.values()))
                if lo != hi:
                    raise ValueError("ambiguous delete query generated")
                exp = len(lo - pending_del)
                pending_del |= lo
                if results is not None:
                    results.append(("delq", op[1], n, exp))
            elif kind == "deln":
                key = op[1]
                if key in committed and key not in pending_del:
                    s = w.searcher()
                    try:
                        dn = s.document_number(k=key)
                    finally:
                        s.close()
                    if dn is None:
                        if results is not None:
                            results.append(("deln_missing", key, None, "docnum"))
                    else:
                        w.delete_document(dn)
                        pending_del.add(key)
            else:
                raise ValueError(kind)
    except BaseException:
        w.cancel()
        raise
    if tx.get("end", "commit") == "cancel":
        w.cancel()
        return False
    w.commit(**commit_kwargs(tx))
    for k in pending_del:
        if k in committed:
            del committed[k]
            model.ndeleted_total += 1
    for d in pending_add:
        committed[d["k"]] = d
        committed.move_to_end(d["k"])
    model.generation += 1
    return True


def build(hist, kind="ram", path=None, refeval=None, to_query=None):
    """Create an index and run the whole history; returns (ix, model)."""
    schema = build_schema(hist.get("schema"))
    ix = create_index(kind, path, schema)
    model = Model()
    model.unique_n = bool((hist.get("schema") or {}).get("n_unique"))
    for tx in hist["txs"]:
        apply_tx(ix, model, tx, refeval, to_query)
    return ix, model


def layout_signature(ix):
    """(number of segments, number of deleted docs still physically present)"""
    r = ix.reader()
    try:
        nseg = len(r.leaf_readers())
        return nseg, r.doc_count_all() - r.doc_count()
    finally:
        r.close()
