"""Hypothesis strategies that *construct* JSON-able cases (no filtering, no own RNG)."""
from hypothesis import strategies as st

# deliberately confusable vocabulary: prefixes, wildcards, ranges, fuzzy neighbours all overlap
VOCAB = ["a", "b", "c", "aa", "ab", "ba", "bb", "ca", "abc", "acb", "bac", "abb", "aab", "cab", "abcd", "bcda",
         "éa", "aé", "\U0001f600b"]
COMMON = ["a", "b", "ab", "abc", "ba"]
word_s = st.one_of(st.sampled_from(COMMON), st.sampled_from(VOCAB), st.sampled_from(VOCAB[:12]))
# (two of the keywords are also words of the text field: the same term text in two fields with different statistics)
kw_s = st.sampled_from(["x", "y", "z", "xy", "yx", "xyz", "a", "ab"])


def doc_s(key_s, maxlen=8, boosts=False):
    d = {
        "k": key_s,
        "t": st.lists(word_s, max_size=maxlen),
        "w": st.lists(kw_s, max_size=3),
        "n": st.one_of(st.none(), st.integers(-40, 40), st.integers(-40, 40), st.sampled_from([-2 ** 31, 2 ** 31 - 1])),
        "d": st.one_of(st.none(), st.integers(-30, 30)),
        "g": st.one_of(st.none(), st.sampled_from(["g1", "g2", "g3"])),
    }
    if boosts:
        d["boost"] = st.sampled_from([1.0, 1.0, 0.5, 2.0, 3.5])
        # a boost for the text field alone (_t_boost=...): it replaces the document boost for that field only
        d["tboost"] = st.sampled_from([None, None, None, 4.0, 0.25])
    return st.fixed_dictionaries(d)


@st.composite
def history_s(draw, max_txs=5, max_docs=12, blocklimits=(1, 2, 3, 128), allow_cancel=False, boosts=False,
              min_txs=1, updates=True, del_queries=None, schema_s=None, merges=(False, False, False, True, "opt")):
    """A commit/merge/delete history over uniquely keyed documents.
    Key discipline: each key is written at most once per transaction."""
    ntx = draw(st.integers(min_txs, max_txs))
    nextkey = 0
    committed = []  # keys believed live (superset is fine: deleting an absent key is legal)
    txs = []
    for _ in range(ntx):
        ops = []
        nadd = draw(st.integers(0, max_docs))
        used = set()
        # deletions first or interleaved
        ndel = draw(st.integers(0, min(4, len(committed)))) if committed else 0
        for _ in range(ndel):
            k = draw(st.sampled_from(committed))
            kind = draw(st.sampled_from(["delk", "delk", "deln", "delt"] + (["delq"] if del_queries else [])))
            if kind == "delk":
                ops.append(["delk", k])
            elif kind == "deln":
                ops.append(["deln", k])
            elif kind == "delt":
                ops.append(["delt", "t", draw(st.sampled_from(VOCAB[3:]))])
            else:
                ops.append(["delq", draw(del_queries)])
        newkeys = []
        for _ in range(nadd):
            if updates and committed and draw(st.integers(0, 5)) == 0:
                cand = [k for k in committed if k not in used]
                if cand:
                    k = draw(st.sampled_from(cand))
                    used.add(k)
                    ops.append(["upd", draw(doc_s(st.just(k), boosts=boosts))])
                    continue
            k = "k%d" % nextkey
            nextkey += 1
            used.add(k)
            newkeys.append(k)
            ops.append(["add", draw(doc_s(st.just(k), boosts=boosts))])
        # move some deletes after adds
        if ops and draw(st.booleans()):
            ops = draw(st.permutations(ops))
        end = "cancel" if (allow_cancel and draw(st.integers(0, 5)) == 0) else "commit"
        m = draw(st.sampled_from(list(merges)))
        tx = {"ops": list(ops), "end": end, "merge": m is not False, "optimize": m == "opt",
              "blocklimit": draw(st.sampled_from(list(blocklimits)))}
        txs.append(tx)
        if end == "commit":
            committed.extend(newkeys)
    h = {"txs": txs}
    if schema_s is not None:
        h["schema"] = draw(schema_s)
    return h


# ---------------------------------------------------------------------------- queries

boost_s = st.sampled_from([1.0, 1.0, 1.0, 0.5, 2.0, 3.0])

_regexes = ["a", "a.", "ab*", "ab?c", "a|b", "(ab|ba)", "[ab]b", "a{1,2}", "ab{0,1}c", ".*b", "b.*", "a+b", "^ab",
            "a.c$", "a{0}b", "ab$", "(a|b)c.*", "é.", "a\\w"]
_wilds = ["a*", "*b", "a?", "?b", "a*b", "??", "a?c", "*", "ab*", "a*c*", "*a*", "???", "ab", "é*"]


def leaf_s(scored_leaves=False):
    tw = st.sampled_from(["t", "t", "t", "w"])

    def word_for(f):
        return word_s if f == "t" else kw_s
    term = st.one_of(
        st.builds(lambda x, b: {"op": "term", "f": "t", "x": x, "boost": b}, word_s, boost_s),
        st.builds(lambda x, b: {"op": "term", "f": "w", "x": x, "boost": b}, kw_s, boost_s),
    )
    bounds = st.one_of(st.none(), word_s, st.sampled_from(["", "a", "ab", "b", "c", "zz"]))
    nb = st.one_of(st.none(), st.integers(-45, 45), st.sampled_from([-2 ** 31, 2 ** 31 - 1]))
    cs = st.booleans() if scored_leaves else st.just(True)
    others = st.one_of(
        st.builds(lambda ws, sl, b: {"op": "phrase", "f": "t", "words": ws, "slop": sl, "boost": b},
                  st.lists(word_s, min_size=2, max_size=4), st.sampled_from([1, 1, 2, 3]), boost_s),
        st.builds(lambda x, c: {"op": "prefix", "f": "t", "x": x, "cs": c}, st.sampled_from(["a", "ab", "b", "abc", "c", "z", "é"]), cs),
        st.builds(lambda x, c: {"op": "wildcard", "f": "t", "x": x, "cs": c}, st.sampled_from(_wilds), cs),
        st.builds(lambda x, c: {"op": "regex", "f": "t", "x": x, "cs": c}, st.sampled_from(_regexes), cs),
        st.builds(lambda s, e, se, ee, c: {"op": "trange", "f": "t", "start": s, "end": e, "se": se, "ee": ee, "cs": c},
                  bounds, bounds, st.booleans(), st.booleans(), cs),
        st.builds(lambda s, e, se, ee, c: {"op": "nrange", "f": "n", "start": s, "end": e, "se": se, "ee": ee, "cs": c},
                  nb, nb, st.booleans(), st.booleans(), cs),
        st.builds(lambda s, e, se, ee: {"op": "drange", "f": "d", "start": s, "end": e, "se": se, "ee": ee},
                  st.one_of(st.none(), st.integers(-35, 35)), st.one_of(st.none(), st.integers(-35, 35)),
                  st.booleans(), st.booleans()),
        st.builds(lambda x, md, pl, c: {"op": "fuzzy", "f": "t", "x": x, "maxdist": md, "prefixlength": pl, "cs": c},
                  st.one_of(word_s, st.sampled_from(["ac", "abd", "bc", "abcc"])), st.sampled_from([1, 1, 2]),
                  st.sampled_from([0, 1, 1, 2]), cs),
        st.builds(lambda f: {"op": "every", "f": f}, st.sampled_from([None, "t", "w", "n", "g"])),
    )
    return st.one_of(term, term, others)


def query_s(max_leaves=8, scored_leaves=False, with_not=True):
    leaf = leaf_s(scored_leaves)

    def extend(children):
        lst2 = st.lists(children, min_size=2, max_size=4)
        lst_wide = st.lists(children, min_size=3, max_size=7)
        opts = [
            st.builds(lambda qs, b: {"op": "and", "qs": qs, "boost": b}, lst2, boost_s),
            st.builds(lambda qs, b: {"op": "or", "qs": qs, "boost": b}, lst2, boost_s),
            st.builds(lambda qs, b: {"op": "or", "qs": qs, "boost": b}, lst_wide, boost_s),
            st.builds(lambda qs, tb: {"op": "dismax", "qs": qs, "tiebreak": tb}, lst2, st.sampled_from([0.0, 0.0, 0.3])),
            st.builds(lambda a, b: {"op": "andnot", "a": a, "b": b}, children, children),
            st.builds(lambda a, b: {"op": "andmaybe", "a": a, "b": b}, children, children),
            st.builds(lambda a, b: {"op": "require", "a": a, "b": b}, children, children),
            st.builds(lambda q, s: {"op": "const", "q": q, "score": s}, children, st.sampled_from([1.0, 2.5])),
        ]
        if with_not:
            opts.append(st.builds(lambda q: {"op": "not", "q": q}, children))
        return st.one_of(*opts)

    return st.recursive(leaf, extend, max_leaves=max_leaves)


def rewrite_query_s(max_leaves=8):
    """C15 grammar: the C01 grammar plus NullQuery, unfielded Every, empty/singleton compounds, duplicate clauses,
    0/1-word phrases and wildcard patterns with '['."""
    base = leaf_s(False)
    extra = st.one_of(
        st.just({"op": "null"}),
        st.just({"op": "every", "f": None}),
        st.builds(lambda ws: {"op": "phrase", "f": "t", "words": ws, "slop": 1}, st.lists(word_s, max_size=1)),
        st.builds(lambda x: {"op": "wildcard", "f": "t", "x": x}, st.sampled_from(["a[bc]", "[ab]b", "a[b]*", "[a-b]?"])),
        st.builds(lambda f: {"op": "every", "f": f}, st.sampled_from(["t", "w", "n"])),
    )
    leaf = st.one_of(base, base, extra, span_s())

    def extend(children):
        lst = st.lists(children, min_size=0, max_size=4)
        dup = st.builds(lambda c, n: [c] * n, children, st.integers(2, 3))
        # sibling clauses on one field (Every(f) next to (negated) clauses on f, ranges next to ranges)
        tleaf = st.one_of(
            st.just({"op": "every", "f": "t"}),
            st.builds(lambda x: {"op": "term", "f": "t", "x": x, "boost": 1.0}, word_s),
            st.builds(lambda x: {"op": "not", "q": {"op": "term", "f": "t", "x": x, "boost": 1.0}}, word_s),
            st.builds(lambda x: {"op": "prefix", "f": "t", "x": x}, st.sampled_from(["a", "ab", "b"])),
            st.builds(lambda s, e: {"op": "trange", "f": "t", "start": s, "end": e, "se": False, "ee": False},
                      st.sampled_from([None, "a", "ab", "b"]), st.sampled_from([None, "abc", "b", "c"])),
        )
        same_field = st.lists(tleaf, min_size=2, max_size=3)
        # two ranges meeting at a word of the vocabulary, with every combination of open / closed at the meeting point
        touching = st.builds(lambda m, lo, hi, ee, se: [
            {"op": "trange", "f": "t", "start": lo, "end": m, "se": False, "ee": ee},
            {"op": "trange", "f": "t", "start": m, "end": hi, "se": se, "ee": False}],
            st.sampled_from(["ab", "b", "ba", "abc", "aa"]), st.sampled_from([None, "a"]), st.sampled_from([None, "c", "cab"]),
            st.booleans(), st.booleans())
        kids = st.one_of(lst, lst, dup, same_field, touching)
        return st.one_of(
            st.builds(lambda qs, b: {"op": "and", "qs": qs, "boost": b}, kids, boost_s),
            st.builds(lambda qs, b: {"op": "or", "qs": qs, "boost": b}, kids, boost_s),
            st.builds(lambda qs: {"op": "dismax", "qs": qs, "tiebreak": 0.0}, kids),
            st.builds(lambda a, b: {"op": "andnot", "a": a, "b": b}, children, children),
            st.builds(lambda a, b: {"op": "andmaybe", "a": a, "b": b}, children, children),
            st.builds(lambda a, b: {"op": "require", "a": a, "b": b}, children, children),
            st.builds(lambda q: {"op": "not", "q": q}, children),
            st.builds(lambda q, s: {"op": "const", "q": q, "score": s}, children, st.sampled_from([1.0, 2.5])),
        )

    return st.recursive(leaf, extend, max_leaves=max_leaves)


def span_s():
    """positional / span query trees over Term leaves of the positional field t"""
    # mostly the common words, so that the terms actually occur near each other in documents
    t = st.builds(lambda x: {"op": "term", "f": "t", "x": x, "boost": 1.0},
                  st.one_of(st.sampled_from(COMMON), st.sampled_from(COMMON), word_s))
    pair = st.tuples(t, t)
    sl = st.sampled_from([1, 1, 2, 3])
    md = st.sampled_from([1, 1, 2, 3])
    ob = st.booleans()
    basic = st.one_of(
        st.builds(lambda qs, s_, o, m: {"op": "span_near2", "qs": qs, "slop": max(s_, m), "ordered": o, "mindist": m},
                  st.lists(t, min_size=2, max_size=3), sl, ob, md),
        st.builds(lambda p, s_, o, m: {"op": "span_near", "a": p[0], "b": p[1], "slop": max(s_, m), "ordered": o, "mindist": m},
                  pair, sl, ob, md),
        st.builds(lambda q, l: {"op": "span_first", "q": q, "limit": l}, t, st.integers(0, 3)),
        st.builds(lambda qs: {"op": "span_or", "qs": qs}, st.lists(t, min_size=2, max_size=3)),
        st.builds(lambda p: {"op": "span_before", "a": p[0], "b": p[1]}, pair),
        st.builds(lambda qs, s_, o: {"op": "sequence", "qs": qs, "slop": s_, "ordered": o, "boost": 1.0},
                  st.lists(t, min_size=2, max_size=3), sl, ob),
        st.builds(lambda qs: {"op": "ordered", "qs": qs, "boost": 1.0}, st.lists(t, min_size=2, max_size=3)),
        st.builds(lambda x: {"op": "variations", "f": "t", "x": x, "boost": 1.0}, word_s),
    )
    nested = st.one_of(
        st.builds(lambda a, b: {"op": "span_not", "a": a, "b": b}, st.one_of(t, basic), t),
        st.builds(lambda a, b: {"op": "span_contains", "a": a, "b": b}, basic, t),
        st.builds(lambda q, l: {"op": "span_first", "q": q, "limit": l}, basic, st.integers(0, 3)),
        # a wrapper around a union, one side of which runs out early: replace() then re-wraps the surviving side
        st.builds(lambda a, b, l, so: {"op": "span_first", "limit": l,
                                       "q": ({"op": "span_or", "qs": [a, b]} if so else
                                             {"op": "or", "qs": [a, b], "boost": 1.0})},
                  t, st.builds(lambda x: {"op": "term", "f": "t", "x": x, "boost": 1.0}, word_s), st.integers(1, 3),
                  st.booleans()),
    )
    return st.one_of(basic, basic, nested)
