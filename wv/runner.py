"""Collect-and-classify runner shared by all property modules.

A property module (wv/props/cNN.py) exposes

    PROP   = "C20"
    LEVEL  = "exploration" | "fault_enumeration"
    RULE   = "text: how cases are generated, what makes one non-trivial / distinct"
    SUBS   = {name: Sub(...)}          # independent sub-checks
    ASSUMPTIONS = [...]

Each Sub owns a Hypothesis strategy producing JSON-able *cases* (or an enumerator for
finite domains) and a pure function run(case, out) that fills an Outcome.  Hypothesis
only constructs cases; replay bypasses it entirely.

Exit codes of a check: 0 held (KNOWN-FINDING lines allowed), 1 new violation
(VIOLATION line printed), 2 harness error.
"""
import os
import sys
import json
import time
import glob
import hashlib
import traceback
import subprocess
import importlib
import collections

ROOT = os.path.dirname(os.path.dirname(os.path.abspath(__file__)))
KNOWN_FILE = os.path.join(ROOT, "known_findings.json")
MAX_SAMPLE_BYTES = 6000


class HarnessError(Exception):
    pass


class Outcome(object):
    """Filled by Sub.run(case, out)."""

    def __init__(self):
        self.violations = []
        self.nontrivial = False
        self.labels = []
        self.excluded = collections.Counter()  # excluded by construction / ambiguous
        self.key = None  # optional digest key (defaults to the whole case)
        self.units = 0  # optional: number of elementary evaluations inside this case

    def fail(self, sig, detail=None):
        self.violations.append({"sig": sig, "detail": _short(detail)})

    def label(self, *names):
        self.labels.extend(names)

    def exclude(self, name, n=1):
        self.excluded[name] += n


class Sub(object):
    def __init__(self, run, strategy=None, enum=None, quick=100, thorough=1000,
                 quick_shards=4, doc="", max_seconds=None, case_timeout=None):
        self.run = run
        self.strategy = strategy  # callable(tier) -> hypothesis strategy
        self.enum = enum  # callable(tier, shard, nshards) -> iterator of cases
        self.quick = quick  # examples per shard
        self.thorough = thorough
        self.quick_shards = quick_shards
        self.doc = doc
        self.max_seconds = max_seconds  # per shard budget (dict tier->s or number)
        self.case_timeout = case_timeout  # watchdog for one case (default WV_CASE_TIMEOUT)

    def budget_s(self, tier):
        if isinstance(self.max_seconds, dict):
            return self.max_seconds.get(tier)
        return self.max_seconds


def _short(x, limit=3000):
    if x is None:
        return None
    try:
        s = x if isinstance(x, str) else json.dumps(x, default=repr, sort_keys=True)
    except Exception:
        s = repr(x)
    if len(s) > limit:
        s = s[:limit] + "...[%d more]" % (len(s) - limit)
    return s


def canon(case):
    return json.dumps(case, sort_keys=True, default=repr, separators=(",", ":"))


def digest(obj):
    return hashlib.sha1(canon(obj).encode("utf-8", "surrogatepass")).hexdigest()[:20]


# ---------------------------------------------------------------------------------
# known findings


class Known(object):
    def __init__(self, prop):
        self.prop = prop
        self.open = []
        self.fixed = []
        if os.path.exists(KNOWN_FILE):
            data = json.load(open(KNOWN_FILE))
            for f in data.get("findings", []):
                if f.get("property") != prop:
                    continue
                if f.get("status") == "open":
                    self.open.append(f)
                else:
                    self.fixed.append(f)

    def match(self, sub, v):
        """Return finding id if violation v (of sub-check sub) is a listed open finding."""
        for f in self.open:
            if f.get("sub") == sub and v["sig"] in f.get("sigs", [f.get("sig")]):
                return f["id"]
        return None


# ---------------------------------------------------------------------------------
# executing one case


def _is_whoosh_frame(fr):
    fn = fr.filename.replace("\\", "/")
    return "/whoosh/" in fn and "/verif/" not in fn


class CaseTimeout(BaseException):
    pass


CASE_TIMEOUT_S = int(os.environ.get("WV_CASE_TIMEOUT", "120"))


def _alarm(signum, frame):
    raise CaseTimeout()


def execute(sub, case):
    import signal
    out = Outcome()
    use_alarm = hasattr(signal, "SIGALRM") and CASE_TIMEOUT_S > 0
    limit = max(CASE_TIMEOUT_S, getattr(sub, "case_timeout", None) or 0)
    if use_alarm:
        signal.signal(signal.SIGALRM, _alarm)
        signal.alarm(limit)
    try:
        sub.run(case, out)
    except CaseTimeout as e:
        # a single small case running for minutes is an endless loop, not slowness: report where it spins
        tb = traceback.extract_tb(e.__traceback__)
        wf = [f for f in tb if _is_whoosh_frame(f)]
        if not wf:
            raise HarnessError("case exceeded %ds outside whoosh code" % limit)
        names = [f.name for f in wf[-3:]]
        out.fail("hang:%s:%s" % (os.path.basename(wf[-1].filename), ">".join(names[:2])),
                 "".join(traceback.format_list(tb))[-2500:])
        return out
    except HarnessError:
        raise
    except (KeyboardInterrupt, SystemExit):
        raise
    except BaseException as e:  # noqa
        tb = traceback.extract_tb(e.__traceback__)
        wf = [f for f in tb if _is_whoosh_frame(f)]
        if not wf and isinstance(e, ValueError) and "__len__() should return >= 0" in str(e):
            # len() of a whoosh object (Results) came out negative: the exception is raised by the builtin in the
            # harness frame, but it is the library's answer that is wrong
            out.fail("crash:negative_len", "".join(traceback.format_exception(type(e), e, e.__traceback__))[-1500:])
            return out
        if wf:
            f = wf[-1]
            out.fail("crash:%s@%s:%s" % (type(e).__name__, os.path.basename(f.filename), f.name),
                     "".join(traceback.format_exception(type(e), e, e.__traceback__))[-2500:])
        else:
            raise HarnessError("exception outside whoosh in sub-check: %r\n%s" % (
                e, "".join(traceback.format_exception(type(e), e, e.__traceback__)))) from e
    finally:
        if use_alarm:
            signal.alarm(0)
    return out


class Stats(object):
    def __init__(self):
        self.evaluations = 0
        self.units = 0
        self.nontrivial = {}  # digest -> None
        self.samples_first = []
        self.samples_low = []  # (digest, sub, case)
        self.classes = collections.Counter()
        self.excluded_known = collections.Counter()
        self.excluded_constr = collections.Counter()
        self.per_sub = collections.Counter()
        self.budget_exhausted = []
        self.collected = {}

    def record(self, subname, case, out):
        self.evaluations += 1
        self.units += out.units
        self.per_sub[subname] += 1
        for lb in out.labels:
            self.classes[subname + ":" + lb] += 1
        for k, n in out.excluded.items():
            self.excluded_constr[subname + ":" + k] += n
        if out.nontrivial:
            d = digest([subname, out.key if out.key is not None else case])
            if d not in self.nontrivial:
                self.nontrivial[d] = None
                samp = sample_of(subname, case)
                if sum(1 for s in self.samples_first if s["sub"] == subname) < 2:
                    self.samples_first.append(samp)
                self.samples_low.append((d, samp))
                self.samples_low.sort(key=lambda x: x[0])
                del self.samples_low[3:]

    def to_json(self):
        return {
            "evaluations": self.evaluations, "units": self.units,
            "nontrivial": list(self.nontrivial),
            "samples_first": self.samples_first,
            "samples_low": [[d, s] for d, s in self.samples_low],
            "classes": dict(self.classes),
            "excluded_known": dict(self.excluded_known),
            "excluded_constr": dict(self.excluded_constr),
            "per_sub": dict(self.per_sub),
            "budget_exhausted": self.budget_exhausted,
            "collected": self.collected,
        }


def sample_of(subname, case):
    s = canon(case)
    if len(s) > MAX_SAMPLE_BYTES:
        return {"sub": subname, "truncated_case_json": s[:MAX_SAMPLE_BYTES], "full_len": len(s)}
    return {"sub": subname, "case": case}


# ---------------------------------------------------------------------------------
# one shard: run every sub-check with Hypothesis (or its enumerator)


def run_shard(mod, tier, seed, shard, nshards, only=None, examples=None):
    import hypothesis
    from hypothesis import settings, given, HealthCheck, Phase

    known = Known(mod.PROP)
    stats = Stats()
    found = None
    for subname, sub in mod.SUBS.items():
        if only and subname not in only:
            continue
        qs = sub.quick_shards if tier == "quick" else nshards
        if shard >= qs:
            continue
        budget = sub.budget_s(tier)
        t0 = time.time()
        state = {"fail_t": None, "best": None, "exhausted": False}

        def one(case, subname=subname, sub=sub, state=state, t0=t0, budget=budget):
            if state["fail_t"] is not None and time.time() - state["fail_t"] > (20 if tier == "quick" else 90):
                return
            if budget is not None and state["fail_t"] is None and time.time() - t0 > budget:
                state["exhausted"] = True
                return
            if os.environ.get("WV_TRACE_CASE"):   # dev aid: which case is running when a shard is killed from outside
                with open(os.environ["WV_TRACE_CASE"], "w") as _tf:
                    json.dump({"sub": subname, "case": case}, _tf, default=repr)
            out = execute(sub, case)
            if state["fail_t"] is None:
                stats.record(subname, case, out)
            new = []
            for v in out.violations:
                kid = known.match(subname, v)
                if kid:
                    if state["fail_t"] is None:
                        stats.excluded_known[kid] += 1
                else:
                    new.append(v)
            if new and os.environ.get("WV_COLLECT"):
                # dev mode: bucket by signature, keep the smallest case per bucket, keep searching
                size = len(canon(case))
                for v in new:
                    cur = stats.collected.get(v["sig"])
                    if cur is None or size < cur[0]:
                        stats.collected[v["sig"]] = [size, {"sub": subname, "case": case, "violations": [v]},
                                                     (cur[2] if cur else 0)]
                    stats.collected[v["sig"]][2] += 1
                return
            if new:
                if state["fail_t"] is None:
                    state["fail_t"] = time.time()
                size = len(canon(case))
                if state["best"] is None or size <= state["best"][0]:
                    state["best"] = (size, case, new)
                raise AssertionError(new[0]["sig"])

        if sub.enum is not None:
            try:
                for case in sub.enum(tier, shard, qs):
                    one(case)
                    if state["exhausted"]:
                        break
            except AssertionError:
                pass
        if sub.strategy is not None:
            n = examples if examples else (sub.quick if tier == "quick" else sub.thorough)
            sseed = (seed * 1000 + shard) * 131 + (int(hashlib.sha1(subname.encode()).hexdigest(), 16) % 127)
            test = given(sub.strategy(tier))(lambda case: one(case))
            test = settings(max_examples=n, database=None, deadline=None, derandomize=False,
                            report_multiple_bugs=False, print_blob=False,
                            phases=[Phase.generate, Phase.shrink],
                            suppress_health_check=[HealthCheck.too_slow, HealthCheck.data_too_large,
                                                   HealthCheck.large_base_example])(test)
            test = hypothesis.seed(sseed)(test)
            try:
                test()
            except HarnessError:
                raise
            except (KeyboardInterrupt, SystemExit):
                raise
            except BaseException as e:  # noqa
                if state["best"] is None:
                    raise HarnessError("hypothesis failed without a recorded violation in %s/%s: %r\n%s" % (
                        mod.PROP, subname, e, traceback.format_exc()))
        if state["exhausted"]:
            stats.budget_exhausted.append(subname)
        if state["best"] is not None:
            found = {"sub": subname, "case": state["best"][1], "violations": state["best"][2]}
            break
    res = stats.to_json()
    res["found"] = found
    return res


# ---------------------------------------------------------------------------------
# parent: known findings, replays, shards, evidence


def load_mod(prop):
    return importlib.import_module("wv.props." + prop.lower())


def write_replay(prop, found, seed, tier):
    d = os.path.join(os.environ.get("WV_SCRATCH_REPLAYS") or os.path.join(ROOT, "replays"), prop)
    os.makedirs(d, exist_ok=True)
    name = "viol_%s_%s.json" % (found["sub"], digest([found["sub"], found["case"]])[:10])
    path = os.path.join(d, name)
    with open(path, "w") as f:
        json.dump({"property": prop, "sub": found["sub"], "case": found["case"],
                   "violations": found["violations"], "seed": seed, "tier": tier}, f, indent=1,
                  sort_keys=True, default=repr)
    return os.path.relpath(path, ROOT) if path.startswith(ROOT) else path


def replay_file(mod, path, known):
    data = json.load(open(path))
    sub = mod.SUBS[data["sub"]]
    out = execute(sub, data["case"])
    new, old = [], []
    for v in out.violations:
        kid = known.match(data["sub"], v)
        (old if kid else new).append((kid, v))
    return new, old


def main(argv=None):
    import argparse
    ap = argparse.ArgumentParser()
    ap.add_argument("prop")
    ap.add_argument("--tier", default=os.environ.get("VERIF_TIER", "quick"), choices=["quick", "thorough"])
    ap.add_argument("--replay")
    ap.add_argument("--sub", action="append")
    ap.add_argument("--examples", type=int)
    ap.add_argument("--shards", type=int)
    ap.add_argument("--shard", type=int)
    ap.add_argument("--out")
    ap.add_argument("--no-evidence", action="store_true")
    args = ap.parse_args(argv)
    prop = args.prop.upper()
    seed = int(os.environ.get("VERIF_SEED", "1") or 1)
    # private temp root per process: whoosh's RamStorage.temp_storage() and the repo's own tests use fixed
    # names under the system temp dir (e.g. <tmp>/MAIN.tmp), which collide between concurrent processes
    import tempfile
    import shutil
    private_tmp = tempfile.mkdtemp(prefix="wv_%s_" % prop)
    os.environ["TMPDIR"] = private_tmp
    tempfile.tempdir = private_tmp
    try:
        return _run_guarded(args, prop, seed)
    finally:
        tempfile.tempdir = None
        shutil.rmtree(private_tmp, ignore_errors=True)


def _run_guarded(args, prop, seed):
    try:
        return _main(args, prop, seed)
    except HarnessError as e:
        print("HARNESS-ERROR property=%s: %s" % (prop, e), file=sys.stderr)
        return 2
    except Exception:
        print("HARNESS-ERROR property=%s (unexpected):\n%s" % (prop, traceback.format_exc()), file=sys.stderr)
        return 2


def _main(args, prop, seed):
    mod = load_mod(prop)
    known = Known(prop)
    t_start = time.time()

    if args.shard is not None:  # worker mode
        res = run_shard(mod, args.tier, seed, args.shard, args.shards or 1, args.sub, args.examples)
        with open(args.out, "w") as f:
            json.dump(res, f, default=repr)
        return 0

    if args.replay:
        new, old = replay_file(mod, args.replay, known)
        for kid, v in old:
            print("KNOWN-FINDING: property=%s %s: %s" % (prop, kid, v["sig"]))
        if new:
            for _, v in new:
                print("  violation sig=%s detail=%s" % (v["sig"], v["detail"]))
            print("VIOLATION property=%s replay=%s" % (prop, args.replay))
            return 1
        print("replay held: property=%s %s" % (prop, args.replay))
        return 0

    # 1. open findings: reproduce and announce
    finding_status = {}
    for f in known.open:
        sub = mod.SUBS[f["sub"]]
        out = execute(sub, f["case"])
        sigs = f.get("sigs", [f.get("sig")])
        hit = [v for v in out.violations if v["sig"] in sigs]
        finding_status[f["id"]] = bool(hit)
        if hit:
            print("KNOWN-FINDING: property=%s %s: %s" % (prop, f["id"], f["what"]))
        other = [v for v in out.violations if v["sig"] not in sigs and not known.match(f["sub"], v)]
        if other and not os.environ.get("WV_SKIP_REPLAYS"):   # (the dev aid tools/mkreplay.py wants the generation)
            print("  violation sig=%s detail=%s" % (other[0]["sig"], other[0]["detail"]))
            path = write_replay(prop, {"sub": f["sub"], "case": f["case"], "violations": other}, seed, args.tier)
            print("VIOLATION property=%s replay=%s" % (prop, path))
            return 1

    # 2. regression replays (shrunk cases of earlier / fixed violations)
    n_replays = 0
    for path in ([] if os.environ.get("WV_SKIP_REPLAYS") else   # (dev aid for tools/mkreplay.py only)
                 sorted(glob.glob(os.path.join(ROOT, "replays", prop, "*.json")))):
        n_replays += 1
        new, old = replay_file(mod, path, known)
        if new:
            print("  violation sig=%s detail=%s" % (new[0][1]["sig"], new[0][1]["detail"]))
            print("VIOLATION property=%s replay=%s" % (prop, os.path.relpath(path, ROOT)))
            return 1

    # 3. generation, sharded over processes
    tier = args.tier
    nshards = args.shards or (max(s.quick_shards for s in mod.SUBS.values()) if tier == "quick" else 16)
    work = os.path.join(ROOT, ".work", "%s_%s_%d" % (prop, tier, os.getpid()))
    os.makedirs(work, exist_ok=True)
    procs = []
    env = dict(os.environ)
    for i in range(nshards):
        outp = os.path.join(work, "shard%d.json" % i)
        cmd = [sys.executable, os.path.join(ROOT, "check"), prop, "--tier", tier, "--shard", str(i),
               "--shards", str(nshards), "--out", outp]
        for s in args.sub or []:
            cmd += ["--sub", s]
        if args.examples:
            cmd += ["--examples", str(args.examples)]
        logf = open(os.path.join(work, "shard%d.log" % i), "w")
        procs.append((i, outp, subprocess.Popen(cmd, env=env, stdout=logf, stderr=subprocess.STDOUT), logf))
    merged = Stats()
    found = None
    harness_fail = None
    for i, outp, p, logf in procs:
        rc = p.wait()
        logf.close()
        if rc != 0 or not os.path.exists(outp):
            harness_fail = (i, rc, open(os.path.join(work, "shard%d.log" % i)).read()[-4000:])
            continue
        res = json.load(open(outp))
        merged.evaluations += res["evaluations"]
        merged.units += res["units"]
        for d in res["nontrivial"]:
            merged.nontrivial[d] = None
        if len(merged.samples_first) < 4:
            merged.samples_first.extend(res["samples_first"][:2])
        merged.samples_low.extend((d, s) for d, s in res["samples_low"])
        for k in ("classes", "excluded_known", "excluded_constr", "per_sub"):
            tgt = {"classes": merged.classes, "excluded_known": merged.excluded_known,
                   "excluded_constr": merged.excluded_constr, "per_sub": merged.per_sub}[k]
            for a, b in res[k].items():
                tgt[a] += b
        merged.budget_exhausted.extend(res["budget_exhausted"])
        for sig, (size, fnd, cnt) in res.get("collected", {}).items():
            cur = merged.collected.get(sig)
            if cur is None or size < cur[0]:
                merged.collected[sig] = [size, fnd, cnt + (cur[2] if cur else 0)]
            else:
                cur[2] += cnt
        if res["found"] and found is None:
            found = res["found"]
    import shutil
    if harness_fail is None:
        shutil.rmtree(work, ignore_errors=True)
    else:
        i, rc, log = harness_fail
        raise HarnessError("shard %d exited %s:\n%s" % (i, rc, log))

    merged.samples_low.sort(key=lambda x: x[0])
    samples = merged.samples_first[:4] + [s for _, s in merged.samples_low[:2]]
    wall = time.time() - t_start
    cov = {
        "evaluations": merged.evaluations,
        "distinct_nontrivial": len(merged.nontrivial),
        "rule": mod.RULE,
        "samples": samples,
        "classes": dict(sorted(merged.classes.items())),
        "per_subcheck_evaluations": dict(sorted(merged.per_sub.items())),
        "excluded_known": dict(merged.excluded_known),
        "excluded_by_construction": dict(merged.excluded_constr),
        "open_findings_reproduced": finding_status,
        "regression_replays_run": n_replays,
        "shards": nshards,
        "budget_exhausted": sorted(set(merged.budget_exhausted)),
    }
    if merged.units:
        cov["elementary_checks"] = merged.units
    if getattr(mod, "EXHAUSTIVE", None):
        ex = mod.EXHAUSTIVE.get(tier)
        if ex:
            cov["exhaustive"] = True
            cov["exhaustive_scope"] = ex
    ev = {
        "property_id": prop, "tier": tier, "seed": seed, "level": mod.LEVEL,
        "coverage": cov, "assumptions": list(getattr(mod, "ASSUMPTIONS", [])),
        "wall_s": round(wall, 2), "violations": 1 if found else 0,
    }
    if not args.no_evidence and not args.sub and not args.examples:
        os.makedirs(os.path.join(ROOT, "evidence"), exist_ok=True)
        with open(os.path.join(ROOT, "evidence", prop + ".json"), "w") as f:
            json.dump(ev, f, indent=1, sort_keys=True, default=repr)
    print("%s %s: evaluations=%d distinct_nontrivial=%d known_excluded=%d wall=%.1fs" % (
        prop, tier, merged.evaluations, len(merged.nontrivial), sum(merged.excluded_known.values()), wall))
    if args.sub or args.examples:
        print(json.dumps(cov["classes"], indent=0)[:3000])
    if merged.collected:
        cdir = os.environ.get("WV_COLLECT_DIR") or os.path.join(ROOT, ".work", "collect", prop)
        shutil.rmtree(cdir, ignore_errors=True)
        os.makedirs(cdir, exist_ok=True)
        for i, (sig, (size, fnd, cnt)) in enumerate(sorted(merged.collected.items(), key=lambda kv: -kv[1][2])):
            pth = os.path.join(cdir, "%02d.json" % i)
            json.dump({"property": prop, "sub": fnd["sub"], "case": fnd["case"], "violations": fnd["violations"],
                       "seed": seed, "tier": tier}, open(pth, "w"), indent=1, sort_keys=True, default=repr)
            print("COLLECTED %5d x %s  (smallest %d bytes) -> %s" % (cnt, sig, size, os.path.relpath(pth, ROOT)))
    if found:
        for v in found["violations"][:3]:
            print("  violation sub=%s sig=%s detail=%s" % (found["sub"], v["sig"], v["detail"]))
        path = write_replay(prop, found, seed, tier)
        print("VIOLATION property=%s replay=%s" % (prop, path))
        return 1
    return 0
