"""Reference evaluator: query JSON x model documents -> (lower, upper) sets of keys.

Pure set algebra over the model: no cursors, blocks, segments or deletions exist here.
lower == upper except where the documented meaning is genuinely ambiguous (FuzzyTerm: the docs
say "edit distance"/"Damerau-Levenshtein" without fixing the variant); Not swaps the bounds.
"""
import re
import fnmatch

from whoosh import query as wq

from wv.corpus import to_date

TEXT_FIELDS = ("t", "w", "s", "fb")


# ---------------------------------------------------------------- edit distances (reference)

def lev(a, b):
    prev = list(range(len(b) + 1))
    for i, ca in enumerate(a, 1):
        cur = [i]
        for j, cb in enumerate(b, 1):
            cur.append(min(prev[j] + 1, cur[j - 1] + 1, prev[j - 1] + (ca != cb)))
        prev = cur
    return prev[-1]


def osa(a, b):
    """restricted Damerau-Levenshtein (optimal string alignment)"""
    la, lb_ = len(a), len(b)
    d = [[0] * (lb_ + 1) for _ in range(la + 1)]
    for i in range(la + 1):
        d[i][0] = i
    for j in range(lb_ + 1):
        d[0][j] = j
    for i in range(1, la + 1):
        for j in range(1, lb_ + 1):
            cost = a[i - 1] != b[j - 1]
            d[i][j] = min(d[i - 1][j] + 1, d[i][j - 1] + 1, d[i - 1][j - 1] + cost)
            if i > 1 and j > 1 and a[i - 1] == b[j - 2] and a[i - 2] == b[j - 1]:
                d[i][j] = min(d[i][j], d[i - 2][j - 2] + 1)
    return d[la][lb_]


def dl(a, b):
    """unrestricted Damerau-Levenshtein"""
    da = {}
    maxdist = len(a) + len(b)
    d = [[0] * (len(b) + 2) for _ in range(len(a) + 2)]
    d[0][0] = maxdist
    for i in range(len(a) + 1):
        d[i + 1][0] = maxdist
        d[i + 1][1] = i
    for j in range(len(b) + 1):
        d[0][j + 1] = maxdist
        d[1][j + 1] = j
    for i in range(1, len(a) + 1):
        db = 0
        for j in range(1, len(b) + 1):
            k = da.get(b[j - 1], 0)
            l = db
            if a[i - 1] == b[j - 1]:
                cost = 0
                db = j
            else:
                cost = 1
            d[i + 1][j + 1] = min(d[i][j] + cost, d[i + 1][j] + 1, d[i][j + 1] + 1,
                                  d[k][l] + (i - k - 1) + 1 + (j - l - 1))
        da[a[i - 1]] = i
    return d[len(a) + 1][len(b) + 1]


# ---------------------------------------------------------------- tokens of a doc field

def field_tokens(doc, f):
    if f in TEXT_FIELDS:
        return doc.get(f) or []
    if f in ("k", "g"):
        v = doc.get(f)
        return [v] if v is not None else []
    return []


def has_field(doc, f):
    if f in TEXT_FIELDS:
        return bool(doc.get(f))
    return doc.get(f) is not None


def _any_token(doc, f, pred):
    return any(pred(t) for t in field_tokens(doc, f))


def phrase_match(tokens, words, slop):
    # chain of strictly increasing positions whose successive gaps are in 1..slop
    if not words:
        return False
    starts = [i for i, t in enumerate(tokens) if t == words[0]]
    cur = set(starts)
    for w in words[1:]:
        nxt = set()
        poss = [i for i, t in enumerate(tokens) if t == w]
        for e in cur:
            for p in poss:
                if 1 <= p - e <= slop:
                    nxt.add(p)
        cur = nxt
        if not cur:
            return False
    return bool(cur)


def _in_range(v, start, end, se, ee):
    if v is None:
        return False
    if start is not None:
        if v < start or (se and v == start):
            return False
    if end is not None:
        if v > end or (ee and v == end):
            return False
    return True


def ref_eval(q, docs):
    """returns (lower, upper) frozen sets of keys"""
    allk = frozenset(d["k"] for d in docs)

    def sel(pred):
        s = frozenset(d["k"] for d in docs if pred(d))
        return s, s

    def ev(q):
        op = q["op"]
        if op == "term":
            return sel(lambda d: q["x"] in field_tokens(d, q["f"]))
        if op == "every":
            f = q.get("f")
            if f is None:
                return allk, allk
            return sel(lambda d: has_field(d, f))
        if op == "null":
            return frozenset(), frozenset()
        if op in ("and", "require"):
            subs = [ev(s) for s in (q["qs"] if op == "and" else [q["a"], q["b"]])]
            if not subs:  # whoosh: a compound without clauses matches nothing
                return frozenset(), frozenset()
            lo, hi = subs[0]
            for l, h in subs[1:]:
                lo, hi = lo & l, hi & h
            return lo, hi
        if op in ("or", "dismax"):
            subs = [ev(s) for s in q["qs"]]
            lo, hi = frozenset(), frozenset()
            for l, h in subs:
                lo, hi = lo | l, hi | h
            return lo, hi
        if op == "not":
            l, h = ev(q["q"])
            return allk - h, allk - l
        if op == "andnot":
            al, ah = ev(q["a"])
            bl, bh = ev(q["b"])
            return al - bh, ah - bl
        if op == "andmaybe":
            return ev(q["a"])
        if op == "const":
            return ev(q["q"])
        if op == "phrase":
            return sel(lambda d: phrase_match(field_tokens(d, q["f"]), q["words"], q.get("slop", 1)))
        if op == "prefix":
            return sel(lambda d: _any_token(d, q["f"], lambda t: t.startswith(q["x"])))
        if op == "wildcard":
            rx = re.compile(fnmatch.translate(q["x"]))
            return sel(lambda d: _any_token(d, q["f"], lambda t: rx.match(t) is not None))
        if op == "regex":
            rx = re.compile(q["x"])
            return sel(lambda d: _any_token(d, q["f"], lambda t: rx.match(t) is not None))
        if op == "trange":
            return sel(lambda d: _any_token(d, q["f"], lambda t: _in_range(
                t.encode("utf8"), None if q["start"] is None else q["start"].encode("utf8"),
                None if q["end"] is None else q["end"].encode("utf8"), q.get("se"), q.get("ee"))))
        if op in ("nrange", "drange"):
            return sel(lambda d: _in_range(d.get(q["f"]), q["start"], q["end"], q.get("se"), q.get("ee")))
        if op == "fuzzy":
            x, md, pl = q["x"], q.get("maxdist", 1), q.get("prefixlength", 1)
            pre = x[:pl]
            lo = frozenset(d["k"] for d in docs if _any_token(
                d, q["f"], lambda t: t.startswith(pre) and lev(t, x) <= md))
            hi = frozenset(d["k"] for d in docs if _any_token(
                d, q["f"], lambda t: t.startswith(pre) and min(osa(t, x), dl(t, x)) <= md))
            return lo, hi
        raise ValueError("unknown op %r" % op)

    return ev(q)


# ---------------------------------------------------------------- JSON -> whoosh query objects

def to_whoosh(q):
    op = q["op"]
    b = q.get("boost", 1.0)
    if op == "term":
        return wq.Term(q["f"], q["x"], boost=b)
    if op == "every":
        return wq.Every(q.get("f"), boost=b)
    if op == "null":
        return wq.NullQuery
    if op == "and":
        return wq.And([to_whoosh(s) for s in q["qs"]], boost=b)
    if op == "or":
        if q.get("scale") is not None:
            # coordination scaling: matching changes nothing, scores are penalised for clauses that do not match
            return wq.Or([to_whoosh(s) for s in q["qs"]], boost=b, scale=q["scale"])
        return wq.Or([to_whoosh(s) for s in q["qs"]], boost=b)
    if op == "dismax":
        return wq.DisjunctionMax([to_whoosh(s) for s in q["qs"]], boost=b, tiebreak=q.get("tiebreak", 0.0))
    if op == "not":
        return wq.Not(to_whoosh(q["q"]), boost=b)
    if op == "andnot":
        return wq.AndNot(to_whoosh(q["a"]), to_whoosh(q["b"]))
    if op == "andmaybe":
        return wq.AndMaybe(to_whoosh(q["a"]), to_whoosh(q["b"]))
    if op == "require":
        return wq.Require(to_whoosh(q["a"]), to_whoosh(q["b"]))
    if op == "const":
        return wq.ConstantScoreQuery(to_whoosh(q["q"]), q.get("score", 1.0))
    if op == "phrase":
        return wq.Phrase(q["f"], list(q["words"]), slop=q.get("slop", 1), boost=b)
    if op == "prefix":
        return wq.Prefix(q["f"], q["x"], boost=b, constantscore=q.get("cs", True))
    if op == "wildcard":
        return wq.Wildcard(q["f"], q["x"], boost=b, constantscore=q.get("cs", True))
    if op == "regex":
        return wq.Regex(q["f"], q["x"], boost=b, constantscore=q.get("cs", True))
    if op == "trange":
        return wq.TermRange(q["f"], q["start"], q["end"], bool(q.get("se")), bool(q.get("ee")), boost=b,
                            constantscore=q.get("cs", True))
    if op == "nrange":
        return wq.NumericRange(q["f"], q["start"], q["end"], bool(q.get("se")), bool(q.get("ee")), boost=b,
                               constantscore=q.get("cs", True))
    if op == "drange":
        return wq.DateRange(q["f"], None if q["start"] is None else to_date(q["start"]),
                            None if q["end"] is None else to_date(q["end"]),
                            bool(q.get("se")), bool(q.get("ee")), boost=b, constantscore=q.get("cs", True))
    if op == "fuzzy":
        return wq.FuzzyTerm(q["f"], q["x"], boost=b, maxdist=q.get("maxdist", 1),
                            prefixlength=q.get("prefixlength", 1), constantscore=q.get("cs", True))
    # span / positional query types (C15/C11 only; no reference semantics in ref_eval)
    from whoosh.query import spans
    if op == "span_near2":
        return spans.SpanNear2([to_whoosh(s) for s in q["qs"]], slop=q.get("slop", 1), ordered=q.get("ordered", True),
                               mindist=q.get("mindist", 1))
    if op == "span_near":
        return spans.SpanNear(to_whoosh(q["a"]), to_whoosh(q["b"]), slop=q.get("slop", 1),
                              ordered=q.get("ordered", True), mindist=q.get("mindist", 1))
    if op == "span_first":
        return spans.SpanFirst(to_whoosh(q["q"]), limit=q.get("limit", 0))
    if op == "span_not":
        return spans.SpanNot(to_whoosh(q["a"]), to_whoosh(q["b"]))
    if op == "span_or":
        return spans.SpanOr([to_whoosh(s) for s in q["qs"]])
    if op == "span_contains":
        return spans.SpanContains(to_whoosh(q["a"]), to_whoosh(q["b"]))
    if op == "span_before":
        return spans.SpanBefore(to_whoosh(q["a"]), to_whoosh(q["b"]))
    if op == "sequence":
        return wq.Sequence([to_whoosh(s) for s in q["qs"]], slop=q.get("slop", 1), ordered=q.get("ordered", True),
                           boost=b)
    if op == "ordered":
        return wq.Ordered([to_whoosh(s) for s in q["qs"]], boost=b)
    if op == "variations":
        return wq.Variations(q["f"], q["x"], boost=b)
    raise ValueError(op)


def shape(q):
    """query shape (operator tree without leaf texts) used for distinctness"""
    op = q["op"]
    if op in ("and", "or", "dismax", "span_near2", "span_or", "sequence", "ordered"):
        return [op] + [shape(s) for s in q["qs"]]
    if op in ("not", "const", "span_first"):
        return [op, shape(q["q"])]
    if op in ("andnot", "andmaybe", "require", "span_near", "span_not", "span_contains", "span_before"):
        return [op, shape(q["a"]), shape(q["b"])]
    return op


def walk(q):
    yield q
    op = q["op"]
    if op in ("and", "or", "dismax", "span_near2", "span_or", "sequence", "ordered"):
        for s in q["qs"]:
            for x in walk(s):
                yield x
    elif op in ("not", "const", "span_first"):
        for x in walk(q["q"]):
            yield x
    elif op in ("andnot", "andmaybe", "require", "span_near", "span_not", "span_contains", "span_before"):
        for x in walk(q["a"]):
            yield x
        for x in walk(q["b"]):
            yield x
