"""Canonical logical dump of a real index, keyed by the stored key field `k` and therefore independent of
document numbering and segment layout."""
import struct


def f32(x):
    return struct.unpack("<f", struct.pack("<f", x))[0]


def _tb(b):
    if isinstance(b, str):
        return b
    return bytes(b).decode("latin-1")


def dump(ix_or_reader, stats=False, vectors=True, columns=True, keyfield="k"):
    close = False
    r = ix_or_reader
    if not hasattr(r, "all_terms"):
        r = ix_or_reader.reader()
        close = True
    try:
        return _dump_reader(r, stats, vectors, columns, keyfield)
    finally:
        if close:
            r.close()


def _dump_reader(r, stats, vectors, columns, keyfield):
    schema = r.schema
    d = {"doc_count": r.doc_count(), "doc_count_all": r.doc_count_all(), "has_deletions": bool(r.has_deletions())}
    keyof = {}
    stored = {}
    for docnum in r.all_doc_ids():
        sf = r.stored_fields(docnum)
        k = sf.get(keyfield)
        if k in stored:
            k = "%s#dup%d" % (k, docnum)
        keyof[docnum] = k
        stored[k] = dict((a, repr(b)) for a, b in sf.items())
    d["stored"] = stored
    d["iter_docs"] = sorted(keyof[dn] for dn, _ in r.iter_docs())
    # postings
    post = {}
    tstats = {}
    for fieldname, btext in r.all_terms():
        if fieldname not in schema:
            continue
        fmt = schema[fieldname].format
        m = r.postings(fieldname, btext)
        entries = {}
        lastid = -1
        while m.is_active():
            dn = m.id()
            if dn <= lastid:
                entries["!order"] = "ids not ascending at %d" % dn
            lastid = dn
            k = keyof.get(dn, "!deleted:%d" % dn)
            e = [f32(m.weight())]
            if fmt is not None:
                if fmt.supports("positions"):
                    e.append(list(m.value_as("positions")))
                if fmt.supports("characters"):
                    e.append([list(x) for x in m.value_as("characters")])
                if fmt.supports("position_boosts"):
                    e.append([[p, f32(b)] for p, b in m.value_as("position_boosts")])
            entries[k] = e
            m.next()
        if entries:
            post.setdefault(fieldname, {})[_tb(btext)] = entries
        if stats:
            ti = r.term_info(fieldname, btext)
            tstats.setdefault(fieldname, {})[_tb(btext)] = [ti.doc_frequency(), round(ti.weight(), 4),
                                                            ti.min_length(), ti.max_length(),
                                                            f32(ti.max_weight())]
    d["postings"] = post
    # concrete names of dynamic (glob) fields are not listed by the schema: take them from the index
    # (from the postings of live documents: names that only deleted documents used are layout, not content)
    dyn = sorted(f for f in post if f in schema and f not in schema.names())
    fobjs = list(schema.items()) + [(f, schema[f]) for f in dyn]
    if stats:
        d["term_stats"] = tstats
        d["field_length_totals"] = dict((f, r.field_length(f)) for f in schema.scorable_names())
    # field lengths
    fl = {}
    for f in list(schema.scorable_names()) + [f for f in dyn if schema[f].scorable]:
        fl[f] = dict((k, r.doc_field_length(dn, f)) for dn, k in keyof.items())
    d["field_lengths"] = fl
    if vectors:
        vec = {}
        for f in [n for n, fo in fobjs if fo.vector]:
            per = {}
            for dn, k in keyof.items():
                if r.has_vector(dn, f):
                    per[k] = [[_tb(t), f32(w)] for t, w in r.vector_as("weight", dn, f)]
            vec[f] = per
        d["vectors"] = vec
    if columns:
        cols = {}
        for f, fobj in fobjs:
            if fobj.column_type:
                # (whether a column *file* exists in some segment is layout; the values - default where
                # missing - are content)
                if not keyof:
                    cols[f] = {}
                    continue
                cr = r.column_reader(f)
                cols[f] = dict((k, repr(cr[dn])) for dn, k in keyof.items())
        d["columns"] = cols
    return d


def diff(a, b, path=""):
    """first few differences between two dumps, as strings"""
    out = []

    def rec(x, y, p):
        if len(out) > 5:
            return
        if isinstance(x, dict) and isinstance(y, dict):
            for k in sorted(set(x) | set(y), key=repr):
                if k not in x:
                    out.append("%s/%s: only in second (%s)" % (p, k, repr(y[k])[:80]))
                elif k not in y:
                    out.append("%s/%s: only in first (%s)" % (p, k, repr(x[k])[:80]))
                else:
                    rec(x[k], y[k], "%s/%s" % (p, k))
        elif x != y:
            out.append("%s: %s != %s" % (p, repr(x)[:120], repr(y)[:120]))

    rec(a, b, path)
    return out
