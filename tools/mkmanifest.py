#!/venv/bin/python
"""Regenerates MANIFEST.json from the table below (kept valid at all times)."""
import json
import os

ROOT = os.path.dirname(os.path.dirname(os.path.abspath(__file__)))

BASELINE = ("cd /repo && /venv/bin/python -m pytest -ra -q -p no:cacheprovider --timeout=900 "
            "--continue-on-collection-errors tests")

# property -> (category, technique, text, note, design_ref)
CHECKS = {
    "C01": ("exploration",
            "property-based testing (Hypothesis): generated histories x query trees, reference set-algebra evaluator + differential over access paths",
            "Generated commit/merge/delete histories and query trees; every query is evaluated through ten access paths on the real index and compared, in both directions, with a reference evaluator over the document model and with each other. Sampling of an unbounded space: small corpora (<=60 docs), depth<=4 trees. Sub-checks bigsegment (one segment of 2049-5001 documents) and phrases (all 2-/3-word phrases x slop 1..4 over a 2-3 letter vocabulary with repeated words against the reference chain matcher).",
            "Trusts wv/refquery.py as the documented meaning; FuzzyTerm checked as an interval (variant of edit distance decided in C19); Regex = re.match.",
            "DESIGN.md section 2 C01"),
    "C02": ("fault_enumeration",
            "fault injection enumerated over every storage-operation boundary of Hypothesis-generated writer transactions (storage wrapper numbering create/write/flush/close/rename/delete/lock operations; survivors materialised at each boundary in 4 on-disk prefix modes and cross-checked against real forked-child os._exit deaths), old-or-new dump oracle plus next-commit and orphan-file oracle",
            "crash: a generated committed base (0-99 single-document commits + 0-3 generated transactions) and one generated transaction (adds, updates, deletes, add/remove field, "
            "merge=False/default/optimize/CLEAR, compound/loose, commit or cancel) are run through a counting FileStorage subclass. At every boundary k the directory a process death "
            "would leave is materialised (as is; open files fully flushed; truncated to 0; cut to half) and must open, equal exactly the old or the new logical state, accept a new "
            "writer with timeout=0 whose commit yields state+1 document and leaves no segment/TOC file outside the current TOC. Every 16th boundary and every boundary from the TOC's "
            "creation on is additionally produced by a forked child that re-runs the transaction and dies with os._exit(137) there. The system calls inside rename_file / delete_file "
            "(os.rename / replace / remove / open) are boundaries of their own.",
            "Power-loss semantics (unsynced page cache, reordered metadata) are outside the statement ('the writing process dies') and not modelled. Exhaustive over boundaries per generated transaction, not over transactions. Byte-identical survivors are judged once (the oracle is a function of the directory content).",
            "DESIGN.md section 2 C02"),
    "C03": ("exploration",
            "property-based testing (Hypothesis) of generated reader/writer schedules: a storage wrapper hands control to the harness at every storage-operation boundary of the writer, where generated reader actions run (deterministic interleaving at I/O granularity); snapshot/refresh oracle against reference states",
            "schedule: generated histories (2-5 transactions after 0-10 single-document commits; adds, updates, deletes, merge=False/default/optimize, cancel) on directory (+/- mmap) and RAM "
            "indexes with compound or loose files; reader actions open / probe / refresh / up_to_date / close / split-open placed at fractions of a transaction's boundaries or at fixed "
            "distances around the TOC rename. A held searcher's full probe (stored fields, lexicon, postings, lengths, vectors, columns, scored and sorted searches) must never change; a "
            "searcher opened, refreshed or split-opened (whoosh's own FileIndex.reader() loop with its first TOC read answered by an earlier TOC) at boundary j must equal the reference "
            "state of the last TOC rename before j; up_to_date() must equal (generation is latest).",
            "Preemption between two non-I/O steps of a reader is not explored (readers share only the storage with writers). Real threads/processes are not used: the schedule is owned by the harness, so every run is a function of the seed.",
            "DESIGN.md section 2 C03"),
    "C04": ("exploration",
            "property-based testing (Hypothesis) of generated writer scripts under a harness-owned schedule: the storage wrapper stops the main writer before every storage operation and a rival writer (same process via a second descriptor, forked child process, or AsyncWriter retry thread) runs there; lock-monitor, admission, lost-update and generation oracles",
            "rivals: a main writer (plain, with-block, BufferedWriter; commit / cancel / exception in the with-block) over a generated base index (directory or RAM) is stopped at every storage "
            "boundary; at each a fresh rival with unique keys (timeout 0 or 30 ms; plain / with / buffered / async front-end; every n-th in a forked process; nested third writer at generated "
            "boundaries; a bystander process forked while the writer is open) tries to write. The lock monitor must never see two holders, rivals must be refused exactly while the lock is "
            "held (never before their timeout) and admitted otherwise, the lock must be free after all outcomes, the final documents must equal the base plus every successful commit, and "
            "latest_generation() must have advanced by one per successful commit (delete-only and idle commits included). In some cases the index is re-created in place while the "
            "main writer is open; the writer attempt that follows must still be refused.",
            "Free-running races of 3-6 unsynchronised processes are not run (they would be judged by the same oracles but are not a function of the seed); the AsyncWriter retry thread is real, its outcome does not depend on timing as long as the lock works.",
            "DESIGN.md section 2 C04"),
    "C05": ("exploration",
            "property-based testing (Hypothesis): differential search(limit=k) vs prefix of search(limit=None) on generated multi-block corpora, with engagement of block skipping measured",
            "Generated corpora with long posting lists (block limit 1-8, 1-4 segments, deletions), generated scored query trees and weighting models; for k in {1,2,3,5,10,|hits|-1} "
            "the limited result list (documents, scores, order) - plain, with terms=True, filter, mask - must equal the first k entries of the exhaustive ranking. ~85% of the "
            "(query,k) pairs actually go through block skipping / matcher replacement. One recorded finding (compound boost > 1, pinned by the repository's tests) is attributed "
            "only when the same query without those boosts passes.",
            "The exhaustive ranking is the reference. Score tolerance 1e-9; ties that differ only by float re-association between matcher implementations are accepted in either order.",
            "DESIGN.md section 2 C05"),
    "C06": ("exploration",
            "property-based testing (Hypothesis): differential between generated physical histories of one logical operation list, compared through a canonical logical dump",
            "One generated document-level operation list (adds, parent/child groups, deletes, updates in epochs) is built through three generated physical histories "
            "(commit partition, merge=False/default/optimize/custom policy, block limit, compression, compound/loose, plain/buffered writer) and through a reference "
            "history (one commit per epoch + optimize). The canonical logical dumps (stored values, live postings with weights and positions, field lengths, vectors, "
            "columns), probe query results and - without deletes - term statistics and scores must be equal; optimize must leave no deleted docs / removed-field terms; "
            "groups must stay adjacent and NestedParent must agree with the model.",
            "In-process writer front-ends only (multi-process writers: C18). BufferedWriter is used only on schemas without column fields and commits without groups "
            "(recorded finding C18-buffered-columns; BufferedWriter has no group support).",
            "DESIGN.md section 2 C06"),
    "C07": ("exploration",
            "model-based property testing (Hypothesis-generated operation histories vs a dictionary model, invariant checked after every transaction)",
            "Generated writer histories (add / update by one or two unique fields / delete by term, query, docnum / commit with every merge mode / cancel) are "
            "applied to a real index and to a dict model; after each transaction every read API (counts, stored-field iteration, Every/Not/Term searches in four "
            "modes, raw postings, grouping, column sort, vectors, delete return values) must agree with the model, cancel must leave the logical dump unchanged, and a "
            "re-opened index must agree as well.",
            "Key discipline of the statement enforced by construction; delete queries exclude FuzzyTerm; add_field/remove_field not exercised in this check (C06 covers removed fields).",
            "DESIGN.md section 2 C07"),
    "C08": ("exploration",
            "property-based testing (Hypothesis): write/read round trips per column type and per generated document through generated storage configurations",
            "column: every column type with a generated sparse docnum->value map is written and read back (RAM, file mmap, file no-mmap; non-zero base offset); each row "
            "must return the value or the default, iteration must agree; RefBytes unique counts straddle 255/256/257 (thorough: 65535/65536/65537), VarBytes totals straddle "
            "2^15/2^16 with and without stored offsets. index: generated documents with arbitrary field subsets and boundary values (non-BMP text, int limits, +-0.0/inf floats, "
            "Decimals, microsecond datetimes, booleans, arbitrary picklable objects, _stored_ override) through 1-3 commits, merge/optimize, compound/loose, mmap on/off, "
            "copy_to_ram: stored fields, Hit values and column values must be those supplied, unsupplied ones absent/default. bulk: one segment whose column streams exceed the "
            "32 KiB spill buffer several times. rejected: a failing add_document must not leak into the next document (recorded finding for postings/columns/lengths).",
            "Offsets beyond 2^31 not generated. CompressedBlockColumn (experimental, unused) is a recorded finding and kept out of the generated types. Float columns compared by value at the column layer.",
            "DESIGN.md section 2 C08"),
    "C09": ("exploration",
            "property-based testing (Hypothesis): reference scorer re-derived from the corpus model (leaf layer) + compositional oracle over sub-query scores (composition layer)",
            "Leaf layer: on generated deletion-free indexes every Term hit score under BM25F (B, K1, per-field B), TF_IDF, Frequency, PL2, DFree, MultiWeighting and "
            "FunctionWeighting equals a reference scorer that re-derives all statistics from the document model. Composition layer: on any generated index the score of every "
            "hit of a generated query tree equals the documented composition (sum / max / first / first+second / constant, times boosts; final() applied once) of the scores "
            "of its sub-queries run alone on the same searcher; scores must not depend on limit or filter.",
            "Field-length byte approximation treated as specification; tolerances 1e-9 (composition) and 2e-6 (reference scorer, float32 term statistics); DisjunctionMax tiebreak != 0 excluded (parameter unused by whoosh).",
            "DESIGN.md section 2 C09"),
    "C10": ("exploration",
            "property-based testing (Hypothesis): generated token streams through a harness tokenizer, read-back compared with a model of the posting format",
            "Generated token streams (unicode terms up to 300 chars, position gaps, character offsets, per-token boosts), all six posting formats for postings and vectors, "
            "field/document boosts, posting-list lengths set around block multiples, deletions, two scorable fields per document, and codecs W3Codec(block limit 1-9|128, "
            "compression 0/3/9, inline limit 1-3), the in-memory codec (BufferedWriter.reader()) and PlainTextCodec. Every posting list, every decoded value kind, term_info "
            "statistics, per-document field lengths and every term vector must equal what the format model derives from the token streams.",
            "Statistics are compared against the as-written list (deletions not reflected until optimize - documented). PlainTextCodec is fed alphanumeric terms only (recorded finding C10-plaintext-term-charset).",
            "DESIGN.md section 2 C10"),
    "C11": ("exploration",
            "model-based property testing (Hypothesis): generated cursor programs on generated matcher trees vs the entry list of a pristine next()-stepped copy",
            "Matcher trees are obtained from generated queries over generated multi-block, multi-segment corpora (scored / boolean / needs_current contexts, per segment and "
            "top-level) and by direct composition of ListMatchers under every public combinator (incl. ArrayUnion with tiny parts, Multi, Inverse, Filter). A generated program of "
            "next / skip_to (targets below, at, between, above ids) / skip_to_quality(0) / replace(0) / copy / reset / all_ids runs on a fresh matcher; after every step id, score "
            "and spans must equal the modelled entry, copies must stay independent, ids strictly increase, all_ids equals stepping.",
            "Entry payloads come from a pristine copy stepped with next() (path-independence is the property). reset() only on never-replaced matchers; no calls on exhausted matchers.",
            "DESIGN.md section 2 C11"),
    "C12": ("exploration",
            "property-based testing (Hypothesis): inequality oracle (bound >= score) at generated positions and thresholds on generated matcher trees",
            "On the C11 matcher population (BM25F with generated B/K1/per-field B, TF_IDF, Frequency, MultiWeighting; direct ListMatcher trees) every tree that claims "
            "quality support is checked at every position a generated program reaches: block_quality() >= current score (and, for term matchers, >= every score up to "
            "block_max_id()), max_quality() >= every remaining score; for generated thresholds q (0, negative, an entry's score -/+ 1e-6, above the maximum) skip_to_quality(q) "
            "must not pass an entry scoring > q and replace(q) must keep every entry scoring > q with its score. One recorded finding (WrappingMatcher.replace boost) is "
            "attributed only when the same case without boosts > 1 passes.",
            "Scores taken from a pristine copy (C11). Weightings that no longer claim quality support after the recorded fixes (PL2, DFree, ReverseWeighting) are outside the statement.",
            "DESIGN.md section 2 C12"),
    "C13": ("exploration",
            "exhaustive enumeration of the 8-bit domain (itertools-style, sharded over processes) + property-based testing (Hypothesis) with boundary-biased generators for wider types and an index-level range oracle",
            "tiers8: every (start<=end | open end) x bracket combination x shift_step of the signed and unsigned 8-bit domain is enumerated (quick: steps 0,3,4,8; thorough: 0..8, "
            "~4.8M combinations) and the union of the value sets covered by tiered_ranges must equal the interval exactly, using only indexed tiers; to_sortable must be a monotone "
            "bijection. codec: generated 16/32/64-bit ints, floats incl. +-0.0/denormals/inf, Decimals, microsecond datetimes: byte round trip, byte order == value order, column "
            "round trip, tier membership. index: generated fields and value multisets incl. the domain extremes; NumericRange/DateRange results, sortedby order and rejection of "
            "out-of-domain values are compared with plain comparisons on the values. partialdates: every typed date precision YYYY[MM[DD[hh[mm[ss]]]]] over leap / non-leap / century "
            "years through DATETIME.parse_query / parse_range against documents one microsecond inside and outside the period (enumerated).",
            "exhaustive: true refers to the 8-bit tier space only; wider domains are sampled. Floats are ordered by the IEEE total order on non-NaN values (-0.0 below +0.0); NaN not generated.",
            "DESIGN.md section 2 C13"),
    "C14": ("exploration",
            "property-based testing (Hypothesis): generated corpora and view requests checked against Python sorted()/set algebra over the document model; column vs posting twins as a differential",
            "Generated multi-segment corpora with missing values, deletions and a segment lacking every sort column; every sort field exists with and without a column. Sorts (asc, "
            "reversed facet, global reverse, limited, multi-key with mixed directions), grouping by field/query/range/overlapping/stored facets, collapse with limits, filter and "
            "mask as query/Results/set, pages and len(results) for several limits are compared with the model: exact order with document order on ties, twins agree, groups "
            "partition the matches, collapse keeps the best N and counts the rest, filter/mask restrict without reordering, pages are slices.",
            "The end at which documents without a value are placed is not asserted (facets.rst and the implementation differ for reversed facets); what is asserted is one contiguous block in document order and agreement between column and posting twins (recorded finding for text fields).",
            "DESIGN.md section 2 C14"),
    "C15": ("exploration",
            "property-based testing (Hypothesis): metamorphic relation docs(r(q)) == docs(q) over generated query trees and indexes",
            "Generated query trees over all public query types (incl. spans, Sequence, NullQuery, empty compounds, overlapping ranges) are rewritten by "
            "normalize (x1, x2), &, |, -, with_boost, replace(absent), apply/accept(identity), copy, deepcopy, pickle and simplify; the rewritten query must "
            "select exactly the documents of the original on generated multi-segment indexes, normalize must be idempotent and total, estimate_size an upper bound. "
            "Two recorded findings (And.normalize range merging / Every(field) absorption, pinned by the repository's own tests) are classified narrowly and excluded.",
            "The original query's own result set is the reference (absolute correctness is C01). simplify() is not compared for FuzzyTerm nodes whose "
            "Levenshtein and Damerau readings differ on the corpus (C19 finding).",
            "DESIGN.md section 2 C15"),
    "C16": ("exploration",
            "grammar-aware fuzzing with Hypothesis (token-soup generator over 19 parser configurations, exception-type oracle) + generated intended trees rendered with the documented precedence and compared through the reference evaluator",
            "matrix: every parser configuration x every field type prefix x 46 construct templates, enumerated. totality: strings assembled from operators, brackets, quotes, field names of every field type, numbers, date words, unicode from all planes and targeted malformed "
            "snippets are parsed by 19 parser configurations; parse() may only return a Query or raise QueryParserError, and searching the result on a fixed index of all field "
            "types may only raise QueryError. meaning: generated trees (NOT/AND/OR/ANDNOT/ANDMAYBE/REQUIRE/implicit grouping, field prefixes, phrases with slop, ranges in all "
            "bracket forms and open ends, wildcards, boosts) are rendered to the query language and the parsed query must select exactly the documents the reference evaluator "
            "selects, under AndGroup and OrGroup.",
            "The property statement's precedence is the authority over the gloss in querylang.rst. Differences caused by the two recorded And.normalize() findings are attributed only when the un-normalized parse is right and the structural trigger is present. An atheris campaign was not built (C-level regex taggers give no coverage gradient; see DESIGN.md).",
            "DESIGN.md section 2 C16"),
    "C17": ("exploration",
            "property-based testing (Hypothesis) over texts x ~55 analyzer/filter configurations x field types x fragmenters, with index/query/highlighter agreement as a round-trip oracle and shipped formatters read back through their inverse (HTML parser) against a sentinel formatter",
            "findable: generated texts (several scripts, case, accents, numbers, URLs/e-mails, stop words, 1-char and 100-char tokens, markup-significant characters, arbitrary unicode) "
            "are indexed under every shipped analyzer (per language), tokenizer and filter (charset folding, n-grams, biword, shingle, intra-word +/- merging, MultiFilter index/query "
            "pairs, compound words, Tee, metaphone, substitution, path, delimited attribute) in TEXT +/- chars, KEYWORD, ID, NGRAM and NGRAMWORDS fields. Every index-time token, the "
            "conjunction of the query-time tokens, each parsed word, every phrase of consecutive index positions and every parsed quoted slice must find the document; positions never "
            "decrease; offsets delimit the token's source; sentinel-formatted highlights are substrings whose marked spans are matched terms, and Html/Null/Uppercase output read back "
            "must equal the sentinel output.",
            "GenshiFormatter and PyStemmerFilter need third-party packages that are not installed and are not exercised. DelimitedAttributeFilter input whose attribute text is not a number is invalid input and excluded.",
            "DESIGN.md section 2 C17"),
    "C18": ("exploration",
            "differential property-based testing (Hypothesis) of logical dumps across the storage x packing x writer-front-end product, with a harness-owned lock schedule for AsyncWriter, plus a model-based generated program against BufferedWriter's own searcher",
            "frontends: generated operation lists in epochs are applied through the plain writer on a fresh directory (reference) and through 3 generated configurations of "
            "{directory +/- mmap, RAM} x {compound, loose files} x {SegmentWriter, MpWriter procs 1-4 / batch 1-5 / merged or multisegment, BufferedWriter limit 1-5, AsyncWriter with "
            "the lock free or held by another writer that then commits or cancels} x {merge=False, default, optimize} x {as is, copy_to_ram, reopened}; canonical logical dumps, probe "
            "results, statistics/scores (delete-free lists) and group adjacency must agree. buffered: generated add/update/delete/commit/search programs against one BufferedWriter; "
            "after every step its searcher must show exactly the model's documents (stored fields, term probes and generated queries of every type against the reference evaluator), "
            "and after close() the index must. flushtimer: commit() in a second thread stopped at a generated storage operation while the owner adds / updates / deletes / closes.",
            "MpWriter runs real sub-processes: which sub-process takes which batch is decided by the OS, so the check samples those schedules rather than enumerating them (the oracle holds for every one of them). The BufferedWriter flush timer is modelled as commit() at generated program points and as commit() in a harness-scheduled second thread; no wall-clock timer is started. SerialMpWriter (a test helper) is not covered.",
            "DESIGN.md section 2 C18"),
    "C19": ("exploration",
            "exhaustive enumeration over small alphabets (sharded) + property-based testing (Hypothesis) against textbook edit-distance references",
            "small: every query word up to length 5 over {a,b} / 4 over {a,b,c} x d in 0..3 x prefix 0..4 against full and partial lexicons, on a one-segment (automaton) and a "
            "three-segment (brute force) index; terms_within must contain everything within Levenshtein distance and nothing beyond Damerau-Levenshtein distance, and both layouts "
            "must agree. sampled: generated lexicons over larger alphabets (multi-byte, non-BMP) with frequencies: terms_within, FuzzyTerm hits, correct_query() (index words stay, others become a term within distance and prefix), and suggest() (existing terms within "
            "distance, no duplicates, limit, nothing closer left out, order by distance then frequency). Two recorded findings pinned by the repository's tests are classified narrowly.",
            "exhaustive: true refers to the stated small alphabets/lengths. Where restricted and unrestricted Damerau-Levenshtein disagree either answer is accepted.",
            "DESIGN.md section 2 C19"),
    "C20": ("exploration",
            "property-based testing (Hypothesis): round-trips and model-based operation programs vs dict/list/set/bisect oracles",
            "Generated key/value multisets, ordered key sets with probes, integer lists, external-sort inputs, "
            "compound member files with seek/read programs and doc-id-set operation programs are executed against "
            "the real classes and compared with Python dict/list/sorted/bisect/set models after every step. "
            "Sampling, not proof: sizes stay below 2^17 bytes per file.",
            "Trusts Python's dict/set/sorted/bisect as the reference; offsets beyond 2^31 not generated; "
            "unused NumberEncoding subclasses and RoaringIdSet out of scope.",
            "DESIGN.md section 2 C20"),
}

NOT_APPLICABLE = {}

ALL = ["C%02d" % i for i in range(1, 21)]


def main():
    checks = []
    for pid in ALL:
        if pid not in CHECKS:
            continue
        cat, tech, text, note, ref = CHECKS[pid]
        checks.append({
            "property_id": pid,
            "quick_cmd": "./check %s --tier quick" % pid,
            "thorough_cmd": "./check %s --tier thorough" % pid,
            "evidence_file": "evidence/%s.json" % pid,
            "replay_cmd_template": "./check %s --replay {path}" % pid,
            "engine": "wv",
            "level_claimed": {"category": cat, "text": text, "design_ref": ref},
            "level_note": note,
            "technique": tech,
        })
    na = []
    for pid in ALL:
        if pid not in CHECKS:
            na.append({"property_id": pid,
                       "reason": NOT_APPLICABLE.get(pid, "check not built yet in this round (planned, see DESIGN.md section 2); not claimed until it exists")})
    man = {
        "version": 1,
        "setup_cmd": "/venv/bin/python -c 'import hypothesis' 2>/dev/null || /venv/bin/pip install --no-index "
                     "--find-links /opt/veriftools/wheels hypothesis",
        "hooks": {
            "guard": "WHOOSH_VERIF",
            "enable": "none needed: whoosh is an editable pure-Python install, checks import /repo/src directly and "
                      "interpose only through public extension points (Storage subclass, codec arguments, Tokenizer)",
            "baseline_off_cmd": BASELINE,
            "source_commits": [],
            "add_only": True,
        },
        "engines": [{"name": "wv", "path": "wv/", "serves_properties": sorted(CHECKS),
                     "kind_free_text": "Hypothesis-driven collect-and-classify runner with reference models, "
                                       "replay files and known-findings handling"}],
        "checks": checks,
        "not_applicable": na,
        "notes": "Exit codes: 0 held, 1 violation (VIOLATION line), 2 harness error. VERIF_SEED honoured.",
    }
    with open(os.path.join(ROOT, "MANIFEST.json"), "w") as f:
        json.dump(man, f, indent=1)


if __name__ == "__main__":
    main()
