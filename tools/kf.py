#!/venv/bin/python
"""Maintain known_findings.json (never used at check run time).
  tools/kf.py fixed C20 <commit> "<what failed>" [replay-file]
  tools/kf.py open  C03 <finding-id> <sub> <sig[,sig2]> "<what fails>" <replay-file-with-case>
"""
import json, sys, os
ROOT = os.path.dirname(os.path.dirname(os.path.abspath(__file__)))
P = os.path.join(ROOT, "known_findings.json")
d = json.load(open(P))
kind = sys.argv[1]
if kind == "fixed":
    prop, commit, what = sys.argv[2:5]
    e = {"property": prop, "status": "fixed", "commit": commit, "what": what,
         "line": "fixed: property=%s %s %s" % (prop, commit, what)}
    if len(sys.argv) > 5:
        e["replay"] = sys.argv[5]
    e["id"] = "%s-fixed-%s" % (prop, commit)
    d["findings"].append(e)
elif kind == "open":
    prop, fid, sub, sigs, what, replay = sys.argv[2:8]
    case = json.load(open(os.path.join(ROOT, replay)))["case"]
    d["findings"].append({"id": fid, "property": prop, "status": "open", "sub": sub, "sigs": sigs.split(","),
                          "what": what, "case": case})
json.dump(d, open(P, "w"), indent=1, sort_keys=True)
