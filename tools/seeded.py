#!/venv/bin/python
"""Seeded-defect bookkeeping (dev aid, never part of a registered check).

  tools/seeded.py import  C01 m1 /tmp/wt_C01/MUTANTS/m1     confirm in a scratch worktree and store under seeded/
  tools/seeded.py run     C01-m1 [--tier quick] [--props C01,C05]   run checks against the mutant (scratch worktree)
  tools/seeded.py runall  [--tier quick]                   every stored mutant against the check of its property

Confirmation = in a scratch worktree of /repo HEAD: patch applies, demo exits 1 with it and 0 without, the
repository test suite passes with it.  Checks are pointed at the scratch worktree with WV_REPO_SRC (equivalent to
applying the patch to /repo, without disturbing background runs that use /repo).
"""
import os
import sys
import json
import shutil
import subprocess
import tempfile

ROOT = os.path.dirname(os.path.dirname(os.path.abspath(__file__)))
SEEDED = os.path.join(ROOT, "seeded")


def sh(cmd, **kw):
    return subprocess.run(cmd, shell=True, stdout=subprocess.PIPE, stderr=subprocess.STDOUT, text=True, **kw)


def make_wt():
    d = tempfile.mkdtemp(prefix="wvseed_")
    os.rmdir(d)
    r = sh("git -C /repo worktree add -q --detach %s HEAD" % d)
    assert r.returncode == 0, r.stdout
    return d


def drop_wt(d):
    sh("git -C /repo worktree remove --force %s" % d)
    shutil.rmtree(d, ignore_errors=True)


def apply(wt, patch):
    r = sh("git -C %s apply %s" % (wt, patch))
    if r.returncode != 0:
        r = sh("git -C %s apply -3 %s" % (wt, patch))
    if r.returncode != 0:
        r = sh("cd %s && patch -p1 --fuzz=3 < %s" % (wt, patch))
    return r.returncode == 0, r.stdout


def env_for(wt):
    e = dict(os.environ)
    e["PYTHONPATH"] = wt + "/src"
    e["TMPDIR"] = wt + "/.tmp"
    os.makedirs(e["TMPDIR"], exist_ok=True)
    e["PYTHONWARNINGS"] = "ignore"
    return e


def do_import(prop, mname, src):
    dst = os.path.join(SEEDED, "%s-%s" % (prop, mname))
    os.makedirs(dst, exist_ok=True)
    for f in ("patch.diff", "demo.py", "meta.json"):
        shutil.copy(os.path.join(src, f), os.path.join(dst, f))
    meta = json.load(open(os.path.join(dst, "meta.json")))
    wt = make_wt()
    try:
        e = env_for(wt)
        r0 = sh("/venv/bin/python %s/demo.py" % dst, env=e, cwd=wt)
        ok, msg = apply(wt, os.path.join(dst, "patch.diff"))
        if not ok:
            meta["confirmed"] = False
            meta["confirm_note"] = "patch does not apply on the fixed tree: " + msg[-500:]
        else:
            # store the patch as it applies to the current tree
            # bytes, not text: some files of the repository have CRLF line endings
            diff = subprocess.run("git -C %s diff HEAD -- src" % wt, shell=True, stdout=subprocess.PIPE).stdout
            open(os.path.join(dst, "patch.diff"), "wb").write(diff)
            r1 = sh("/venv/bin/python %s/demo.py" % dst, env=e, cwd=wt)
            rt = sh("/venv/bin/python -m pytest -q -p no:cacheprovider --timeout=900 -x tests 2>&1 | tail -3", env=e, cwd=wt)
            meta["confirm"] = {
                "demo_exit_unchanged": r0.returncode, "demo_exit_changed": r1.returncode,
                "tests_tail": rt.stdout.strip().splitlines()[-1] if rt.stdout.strip() else "",
                "what_i_ran": "scratch worktree of /repo HEAD: demo.py (unchanged) -> apply patch -> demo.py -> "
                              "pytest tests -> worktree removed",
            }
            meta["confirmed"] = (r0.returncode == 0 and r1.returncode == 1 and " passed" in rt.stdout
                                 and "failed" not in rt.stdout)
        meta["property"] = prop
        json.dump(meta, open(os.path.join(dst, "meta.json"), "w"), indent=1)
        print(prop, mname, "confirmed" if meta.get("confirmed") else "NOT CONFIRMED", meta.get("confirm", meta.get("confirm_note")))
    finally:
        drop_wt(wt)


def do_run(name, tier, props=None):
    dst = os.path.join(SEEDED, name)
    meta = json.load(open(os.path.join(dst, "meta.json")))
    props = props or [meta["property"]]
    wt = make_wt()
    res = {}
    try:
        ok, msg = apply(wt, os.path.join(dst, "patch.diff"))
        assert ok, msg
        e = env_for(wt)
        e["WV_REPO_SRC"] = wt + "/src"
        e["WV_SCRATCH_REPLAYS"] = wt + "/.replays"
        for p in props:
            if not os.path.exists(os.path.join(ROOT, "wv", "props", p.lower() + ".py")):
                res[p] = "no-check"
                continue
            r = sh("%s/check %s --tier %s --no-evidence" % (ROOT, p, tier), env=e, cwd=ROOT)
            viol = [l for l in r.stdout.splitlines() if l.startswith("VIOLATION") or "violation s" in l]
            res[p] = {"exit": r.returncode, "lines": [v[:300] for v in viol[:3]]}
    finally:
        drop_wt(wt)
    # merge: a later run against other properties must not forget earlier results of this tier
    prev = (meta.get("check_results") or {}).get(tier) or {}
    prev.update(res)
    meta.setdefault("check_results", {})
    meta["check_results"][tier] = prev
    json.dump(meta, open(os.path.join(dst, "meta.json"), "w"), indent=1)
    print(name, tier, json.dumps(res)[:600])
    return res


def main():
    cmd = sys.argv[1]
    tier = "quick"
    if "--tier" in sys.argv:
        tier = sys.argv[sys.argv.index("--tier") + 1]
    props = None
    if "--props" in sys.argv:
        props = sys.argv[sys.argv.index("--props") + 1].split(",")
    if cmd == "import":
        do_import(sys.argv[2], sys.argv[3], sys.argv[4])
    elif cmd == "run":
        do_run(sys.argv[2], tier, props)
    elif cmd == "runall":
        for name in sorted(os.listdir(SEEDED)):
            if os.path.isdir(os.path.join(SEEDED, name)):
                do_run(name, tier, props)


main()
