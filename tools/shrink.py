#!/venv/bin/python
"""Structural ddmin of a replay file (dev aid; bypasses Hypothesis).
  tools/shrink.py replays/C01/x.json [sig-prefix]
Tries removing list elements and hoisting sub-queries while a violation with the same signature
(prefix) is still produced; rewrites the file in place with the smaller case."""
import os
import sys
import json
import copy
import time
import tempfile

ROOT = os.path.dirname(os.path.dirname(os.path.abspath(__file__)))
sys.path.insert(0, ROOT)
os.environ.setdefault("PYTHONHASHSEED", "0")
import warnings  # noqa
warnings.simplefilter("ignore")
from wv import runner  # noqa


def paths(obj, pre=()):
    if isinstance(obj, list):
        yield pre, obj
        for i, x in enumerate(obj):
            for p in paths(x, pre + (i,)):
                yield p
    elif isinstance(obj, dict):
        yield pre, obj
        for k in sorted(obj):
            for p in paths(obj[k], pre + (k,)):
                yield p


def get(obj, path):
    for p in path:
        obj = obj[p]
    return obj


def setp(obj, path, val):
    if not path:
        return val
    get(obj, path[:-1])[path[-1]] = val
    return obj


def candidates(case):
    for path, node in list(paths(case)):
        if isinstance(node, list) and node:
            if len(node) > 3:
                for lo in range(0, len(node), max(1, len(node) // 2)):
                    c = copy.deepcopy(case)
                    del get(c, path)[lo:lo + max(1, len(node) // 2)]
                    yield c
            for i in range(len(node)):
                c = copy.deepcopy(case)
                del get(c, path)[i]
                yield c
        if isinstance(node, dict) and "op" in node and path:
            kids = []
            if "qs" in node:
                kids = node["qs"]
            for k in ("q", "a", "b"):
                if isinstance(node.get(k), dict):
                    kids = kids + [node[k]]
            for kid in kids:
                c = copy.deepcopy(case)
                c = setp(c, path, copy.deepcopy(kid))
                yield c
            if node.get("boost") not in (None, 1.0):
                c = copy.deepcopy(case)
                get(c, path)["boost"] = 1.0
                yield c


def main():
    path = sys.argv[1]
    data = json.load(open(path))
    mod = runner.load_mod(data["property"])
    sub = mod.SUBS[data["sub"]]
    want = sys.argv[2] if len(sys.argv) > 2 else data["violations"][0]["sig"]
    tempfile.tempdir = tempfile.mkdtemp(prefix="wvshrink_")

    def fails(case):
        try:
            out = runner.execute(sub, case)
        except runner.HarnessError:
            return None
        hit = [v for v in out.violations if v["sig"].startswith(want)]
        return hit or None

    case = data["case"]
    assert fails(case), "does not reproduce"
    t0 = time.time()
    improved = True
    while improved and time.time() - t0 < 600:
        improved = False
        for c in candidates(case):
            v = fails(c)
            if v:
                case = c
                data["violations"] = v
                improved = True
                break
    data["case"] = case
    json.dump(data, open(path, "w"), indent=1, sort_keys=True, default=repr)
    print("shrunk to %d bytes; sig=%s" % (len(json.dumps(case)), data["violations"][0]["sig"]))
    print(json.dumps(case)[:3000])


main()
