#!/venv/bin/python
"""For 'fixed' entries of known_findings.json that have no replay file: revert that one fix in a scratch worktree,
run the property's check there in collect mode, keep the smallest failing cases that pass again on the current tree
as replays/<P>/fix_<commit>_<n>.json and note the first one in the entry.  Dev aid, never part of a check.

  tools/mkreplay.py [Cxx ...]
"""
import os, sys, json, glob, shutil, subprocess, tempfile
ROOT = os.path.dirname(os.path.dirname(os.path.abspath(__file__)))
KF = os.path.join(ROOT, "known_findings.json")


def sh(cmd, **kw):
    return subprocess.run(cmd, shell=True, stdout=subprocess.PIPE, stderr=subprocess.STDOUT, text=True, **kw)


def main():
    tier = "quick"
    if "--tier" in sys.argv:
        tier = sys.argv[sys.argv.index("--tier") + 1]
        del sys.argv[sys.argv.index("--tier"):sys.argv.index("--tier") + 2]
    want = set(sys.argv[1:])
    kf = json.load(open(KF))
    todo = [e for e in kf["findings"] if e["status"] == "fixed" and not e.get("replay") and (not want or e["property"] in want)]
    for e in todo:
        prop, commit = e["property"], e["commit"]
        wt = tempfile.mkdtemp(prefix="wvrev_")
        os.rmdir(wt)
        r = sh("git -C /repo worktree add -q --detach %s HEAD" % wt)
        try:
            r = sh("git -C %s revert -n %s" % (wt, commit))
            if r.returncode != 0:
                print(prop, commit, "revert conflicts: skipped")
                continue
            cdir = os.path.join(wt, ".collect")
            env = dict(os.environ, WV_REPO_SRC=wt + "/src", WV_COLLECT="1", WV_COLLECT_DIR=cdir, WV_SKIP_REPLAYS="1",
                       TMPDIR=os.path.join(wt, ".tmp"), WV_SCRATCH_REPLAYS=os.path.join(wt, ".replays"), PYTHONWARNINGS="ignore")
            os.makedirs(env["TMPDIR"], exist_ok=True)
            sh("%s/check %s --tier %s --no-evidence" % (ROOT, prop, tier), env=env, cwd=ROOT)
            cands = sorted(glob.glob(os.path.join(cdir, "*.json")), key=os.path.getsize)
            kept = []
            for c in cands:
                if len(kept) >= 2:
                    break
                # must hold on the current tree
                env2 = dict(os.environ, WV_SCRATCH_REPLAYS=os.path.join(wt, ".replays2"), PYTHONWARNINGS="ignore")
                rr = sh("%s/check %s --replay %s" % (ROOT, prop, c), env=env2, cwd=ROOT)
                if rr.returncode == 0:
                    dst = os.path.join(ROOT, "replays", prop, "fix_%s_%d.json" % (commit, len(kept)))
                    os.makedirs(os.path.dirname(dst), exist_ok=True)
                    shutil.copy(c, dst)
                    kept.append(os.path.relpath(dst, ROOT))
            if kept:
                e["replay"] = kept[0]
                json.dump(kf, open(KF, "w"), indent=1, sort_keys=True)
            print(prop, commit, "replays:", kept or "none found at %s tier" % tier)
        finally:
            sh("git -C /repo worktree remove --force %s" % wt)
            shutil.rmtree(wt, ignore_errors=True)


main()
